// Multi-purpose sandbox target (static).  Usage: target <cmd> [args...]
//   exit N | sig S | sleep MS | spin | hello
#define _GNU_SOURCE
#include <dirent.h>
#include <errno.h>
#include <fcntl.h>
#include <signal.h>
#include <stdio.h>
#include <stdlib.h>
#include <string.h>
#include <sys/syscall.h>
#include <sys/types.h>
#include <sys/mman.h>
#include <sys/vfs.h>
#include <sys/prctl.h>
#include <pthread.h>
#include <sys/stat.h>
#include <sys/socket.h>
#include <sys/un.h>
#include <sys/resource.h>
#include <sys/wait.h>
#include <time.h>
#include <unistd.h>

static void *opener(void *a) { (void)a; for (;;) { int fd = syscall(SYS_open, "/dev/null", O_RDONLY); if (fd >= 0) close(fd); } return NULL; }


// ---- pathops: scripted path syscalls with exact register values, and the kernel's own resolution of (dirfd, path)
static int po_slots[16];
static unsigned long po_dspec(const char *d) {
  // cwd:sx | cwd:zx | cwd:gb | slot:N:sx|zx|gb | num:V
  unsigned long lo;
  const char *enc;
  if (!strncmp(d, "cwd:", 4)) { lo = 0xffffff9cUL; enc = d + 4; }
  else if (!strncmp(d, "slot:", 5)) { lo = (unsigned long)(unsigned int)po_slots[atoi(d + 5) & 15]; enc = strchr(d + 5, ':') + 1; }
  else return strtoul(d + 4, NULL, 0);
  if (!strcmp(enc, "sx")) return (unsigned long)(long)(int)lo;
  if (!strcmp(enc, "gb")) return 0xdeadbeef00000000UL | lo;
  return lo;
}
static void po_truth(FILE *out, int dfd, const char *path, int nofollow) {
  static char link[64], res[8192];
  int fd = openat(dfd, path, O_PATH | (nofollow ? O_NOFOLLOW : 0));
  if (fd >= 0) {
    snprintf(link, sizeof link, "/proc/self/fd/%d", fd);
    ssize_t l = readlink(link, res, sizeof res - 1); close(fd);
    if (l < 0) { fprintf(out, " !readlink"); return; }
    res[l] = 0; fprintf(out, " %s", res); return;
  }
  if (errno != ENOENT) { fprintf(out, " !e%d", errno); return; }
  // the last component may be missing: parent + name
  static char tmp[8192]; strncpy(tmp, path, sizeof tmp - 1);
  size_t n = strlen(tmp);
  if (n == 0) { fprintf(out, " !empty"); return; }
  if (tmp[n - 1] == '/') { fprintf(out, " !e2"); return; }
  char *sl = strrchr(tmp, '/'); const char *last, *dirp;
  if (sl) { last = sl + 1; if (sl == tmp) dirp = "/"; else { *sl = 0; dirp = tmp; } } else { last = tmp; dirp = "."; }
  if (!strcmp(last, ".") || !strcmp(last, "..")) { fprintf(out, " !e2"); return; }
  static char lastc[4096]; strncpy(lastc, last, sizeof lastc - 1);
  int pfd = openat(dfd, dirp, O_PATH | O_DIRECTORY);
  if (pfd < 0) { fprintf(out, " !e%d", errno); return; }
  struct stat st;
  if (fstatat(pfd, lastc, &st, AT_SYMLINK_NOFOLLOW) == 0) { close(pfd); fprintf(out, " !dangling"); return; }
  snprintf(link, sizeof link, "/proc/self/fd/%d", pfd);
  ssize_t l = readlink(link, res, sizeof res - 1); close(pfd);
  if (l < 0) { fprintf(out, " !readlink"); return; }
  res[l] = 0;
  fprintf(out, " %s%s%s", res, (l == 1 && res[0] == '/') ? "" : "/", lastc);
}
// "@k@" in a pathname stands for the number of the k-th directory descriptor of this program
static const char *po_subst(const char *t) {
  static char bufs[4][8200]; static int nb; char *o = bufs[nb++ & 3]; size_t n = 0;
  for (const char *q = t; *q && n < 8100; ) {
    if (q[0] == '@' && q[1] >= '0' && q[1] <= '9' && q[2] == '@') { n += snprintf(o + n, 16, "%d", po_slots[(q[1] - '0') & 15]); q += 3; }
    else o[n++] = *q++;
  }
  o[n] = 0; return o;
}
static int pathops(const char *script, const char *outp) {
  FILE *in = fopen(script, "r"), *out = fopen(outp, "w");
  if (!in || !out) return 97;
  fprintf(out, "pid %d\n", (int)getpid());
  static char line[16384]; static char strs[8][8192]; static unsigned long how[4];
  while (fgets(line, sizeof line, in)) {
    char *tok[16]; int nt = 0; line[strcspn(line, "\n")] = 0;
    for (char *q = strtok(line, " "); q && nt < 16; q = strtok(NULL, " ")) tok[nt++] = q;
    if (nt == 0) continue;
    if (!strcmp(tok[0], "chdir")) { if (chdir(tok[1]) != 0) return 96; }
    else if (!strcmp(tok[0], "opendir")) { po_slots[atoi(tok[1]) & 15] = open(tok[2], O_RDONLY | O_DIRECTORY); if (po_slots[atoi(tok[1]) & 15] < 0) return 95; }
    else if (!strcmp(tok[0], "fchdir")) { if (fchdir(po_slots[atoi(tok[1]) & 15]) != 0) return 94; }
    else if (!strcmp(tok[0], "op")) {
      // op ID NR a0..a5 ; each: p:STRING (pointer; "-" is the empty string) | d:DSPEC | n:NUMBER | h:FLAGS (pointer to an open_how) | x (unmapped pointer)
      unsigned long a[6] = {0, 0, 0, 0, 0, 0}; int ns = 0; static char mk[64];
      for (int i = 0; i < 6 && 3 + i < nt; i++) {
        const char *t = tok[3 + i];
        if (t[0] == 'p' || t[0] == 'q' || t[0] == 'w') { static char tb[3][8300]; static int tn; char *tt = tb[tn++ % 3]; tt[0] = t[0]; tt[1] = ':'; strncpy(tt + 2, po_subst(t + 2), 8200); t = tt; }
        if (t[0] == 'p') { strncpy(strs[ns], strcmp(t + 2, "-") ? t + 2 : "", sizeof strs[0] - 1); a[i] = (unsigned long)strs[ns++]; }
        else if (t[0] == 'q') {
          // the same, with the string lying across a page boundary (half of it on either side)
          static char *pg[8]; if (!pg[ns]) pg[ns] = mmap(NULL, 4 * 4096, PROT_READ | PROT_WRITE, MAP_PRIVATE | MAP_ANONYMOUS, -1, 0);
          size_t L = strlen(t + 2); char *at = pg[ns] + 2 * 4096 - (L / 2 ? L / 2 : 1);
          memcpy(at, t + 2, L + 1); a[i] = (unsigned long)at; ns++;
        }
        else if (t[0] == 'w') {
          // the same, in a page that is mapped PROT_WRITE only
          static char *pw[8]; if (!pw[ns]) pw[ns] = mmap(NULL, 3 * 4096, PROT_READ | PROT_WRITE, MAP_PRIVATE | MAP_ANONYMOUS, -1, 0);
          mprotect(pw[ns], 3 * 4096, PROT_READ | PROT_WRITE);
          size_t L = strlen(t + 2); char *at = pw[ns] + 64;
          memcpy(at, t + 2, L + 1); mprotect(pw[ns], 3 * 4096, PROT_WRITE); a[i] = (unsigned long)at; ns++;
        }
        else if (t[0] == 'd') a[i] = po_dspec(t + 2);
        else if (t[0] == 'n') a[i] = strtoul(t + 2, NULL, 0);
        else if (t[0] == 'h') { how[0] = strtoul(t + 2, NULL, 0); how[1] = 0; how[2] = 0; a[i] = (unsigned long)how; }
        else if (t[0] == 'x') a[i] = 0x10;
      }
      snprintf(mk, sizeof mk, "/__m__/%s", tok[1]);
      syscall(SYS_access, mk, 0);
      long r = syscall(atol(tok[2]), a[0], a[1], a[2], a[3], a[4], a[5]);
      int e = errno;
      syscall(SYS_access, "/__m__/end", 0);
      fprintf(out, "op %s %ld %d\n", tok[1], r, r < 0 ? e : 0);
    } else if (!strcmp(tok[0], "t")) {
      // t ID DSPEC PATH : the kernel's resolution, following and not following the last component
      int dfd = (int)po_dspec(tok[2]);
      const char *pth = strcmp(tok[3], "-") ? po_subst(tok[3]) : "";
      fprintf(out, "t %s", tok[1]);
      po_truth(out, dfd, pth, 0); po_truth(out, dfd, pth, 1);
      fprintf(out, "\n");
    }
  }
  fclose(out);
  return 0;
}


// ---- verdicts: a tree of tasks (fork / vfork / threads) issuing marker syscalls mkdirat(AT_FDCWD, DIR/m_ID_D)
#define VD_MAXT 32
#define VD_MAXS 64
struct vd_step { char op; int arg; char dec; char dec2; };
static struct vd_step vd_tasks[VD_MAXT][VD_MAXS]; static int vd_n[VD_MAXT];
static char vd_dir[2048]; static int vd_out;
static void vd_run(int k);
static void *vd_thread(void *a) { vd_run((int)(long)a); return NULL; }
static void vd_run(int k) {
  pthread_t th[VD_MAXS]; int nth = 0; static __thread char path[4096], line[128];
  for (int i = 0; i < vd_n[k]; i++) {
    struct vd_step *st = &vd_tasks[k][i];
    if (st->op == 's') {
      snprintf(path, sizeof path, "%s/m_%d_%c", vd_dir, st->arg, st->dec);
      long r = syscall(SYS_mkdirat, AT_FDCWD, path, 0700); int e = errno;
      int n = snprintf(line, sizeof line, "r %d %ld %d\n", st->arg, r, r < 0 ? e : 0);
      syscall(SYS_write, vd_out, line, n);
    } else if (st->op == 'R' || st->op == 'L' || st->op == 'N') {
      // a call with two pathnames: DIR/m_ID_1_<d1> -> DIR/m_ID_2_<d2>
      static __thread char path2[4096];
      snprintf(path, sizeof path, "%s/m_%d_1_%c", vd_dir, st->arg, st->dec);
      snprintf(path2, sizeof path2, "%s/m_%d_2_%c", vd_dir, st->arg, st->dec2);
      long r = st->op == 'R' ? syscall(SYS_renameat2, AT_FDCWD, path, AT_FDCWD, path2, 0)
             : st->op == 'L' ? syscall(SYS_linkat, AT_FDCWD, path, AT_FDCWD, path2, 0)
             : syscall(SYS_rename, path, path2);
      int e = errno;
      int n = snprintf(line, sizeof line, "r %d %ld %d\n", st->arg, r, r < 0 ? e : 0);
      syscall(SYS_write, vd_out, line, n);
    } else if (st->op == 'f') {
      pid_t c = fork(); if (c == 0) { vd_run(st->arg); _exit(0); }
    } else if (st->op == 'v') {
      pid_t c = vfork(); if (c == 0) { vd_run(st->arg); _exit(0); }
    } else if (st->op == 't') {
      pthread_create(&th[nth++], NULL, vd_thread, (void *)(long)st->arg);
    } else if (st->op == 'x') {
      _exit(st->arg);
    } else if (st->op == 'p') {
      struct timespec ts = {st->arg / 1000, (st->arg % 1000) * 1000000L}; nanosleep(&ts, NULL);
    } else if (st->op == 'w') {
      for (int j = 0; j < nth; j++) pthread_join(th[j], NULL);
      nth = 0; while (waitpid(-1, NULL, 0) > 0) {}
    }
  }
  for (int j = 0; j < nth; j++) pthread_join(th[j], NULL);
}
static int verdicts(const char *script, const char *dir, const char *outp) {
  FILE *in = fopen(script, "r"); if (!in) return 97;
  strncpy(vd_dir, dir, sizeof vd_dir - 1);
  vd_out = open(outp, O_CREAT | O_WRONLY | O_APPEND, 0600); if (vd_out < 0) return 96;
  char op[16]; int a, cur = 0; char d[8];
  while (fscanf(in, "%15s %d %7s", op, &a, d) == 3) {
    if (!strcmp(op, "task")) { cur = a % VD_MAXT; continue; }
    if (vd_n[cur] >= VD_MAXS) continue;
    struct vd_step *st = &vd_tasks[cur][vd_n[cur]++]; st->arg = a; st->dec = d[0]; st->dec2 = d[1];
    st->op = !strcmp(op, "ren") ? 'R' : !strcmp(op, "lnk") ? 'L' : !strcmp(op, "rn0") ? 'N' : !strcmp(op, "s") ? 's' : !strcmp(op, "fork") ? 'f' : !strcmp(op, "vfork") ? 'v' : !strcmp(op, "thread") ? 't' : !strcmp(op, "pause") ? 'p' : !strcmp(op, "exit") ? 'x' : 'w';
  }
  fclose(in);
  { char l0[64]; int n0 = snprintf(l0, sizeof l0, "p %d\n", (int)getpid()); syscall(SYS_write, vd_out, l0, n0); }
  vd_run(0);
  while (waitpid(-1, NULL, 0) > 0) {}
  return 0;
}

int main(int argc, char **argv) {
  if (argc < 2) return 2;
  const char *c = argv[1];
  if (!strcmp(c, "exit")) {
    _exit(atoi(argv[2]));
  } else if (!strcmp(c, "sig")) {
    int s = atoi(argv[2]);
    struct sigaction sa; memset(&sa, 0, sizeof sa); sa.sa_handler = SIG_DFL;
    // raw syscalls: glibc refuses 32/33
    syscall(SYS_rt_sigaction, s, &sa, NULL, 8);
    unsigned long long none = 0;
    syscall(SYS_rt_sigprocmask, SIG_SETMASK, &none, NULL, 8);
    syscall(SYS_kill, getpid(), s);
    // signals that are ignored or stop by default do not terminate: report that
    _exit(100);
  } else if (!strcmp(c, "sigplain")) {
    // what an ordinary program does: no change of mask or disposition, just the signal (the start state decides what happens)
    syscall(SYS_kill, getpid(), atoi(argv[2]));
    _exit(100);
  } else if (!strcmp(c, "sleep")) {
    struct timespec ts; long ms = atol(argv[2]);
    ts.tv_sec = ms / 1000; ts.tv_nsec = (ms % 1000) * 1000000L;
    nanosleep(&ts, NULL);
    _exit(0);
  } else if (!strcmp(c, "spin")) {
    volatile unsigned long x = 0; for (;;) x++;
  } else if (!strcmp(c, "fault")) {
    const char *k = argv[2];
    if (!strcmp(k, "segv")) { *(volatile int *)8 = 1; }
    else if (!strcmp(k, "ill")) { __asm__ volatile("ud2"); }
    else if (!strcmp(k, "fpe")) { __asm__ volatile("xor %%ecx,%%ecx; xor %%edx,%%edx; mov $1,%%eax; idiv %%ecx" ::: "eax","ecx","edx"); }
    else if (!strcmp(k, "trap")) { __asm__ volatile("int3"); }
    _exit(101);
  } else if (!strcmp(c, "childsig")) {
    // a child dies of signal S (or exits with -S when S < 0) while the main task lives on and exits N
    int s = atoi(argv[2]), n = atoi(argv[3]);
    pid_t p = fork();
    if (p == 0) {
      if (s < 0) _exit(-s);
      struct sigaction sa; memset(&sa, 0, sizeof sa); sa.sa_handler = SIG_DFL;
      syscall(SYS_rt_sigaction, s, &sa, NULL, 8);
      unsigned long long none = 0;
      syscall(SYS_rt_sigprocmask, SIG_SETMASK, &none, NULL, 8);
      syscall(SYS_kill, getpid(), s);
      _exit(100);
    }
    int st; waitpid(p, &st, 0);
    struct timespec ts = {0, 20000000}; nanosleep(&ts, NULL);
    _exit(n);
  } else if (!strcmp(c, "stopcont")) {
    // the main task stops itself (job control), a child continues it 150 ms later, then it exits N
    int n = atoi(argv[2]); pid_t me = getpid();
    pid_t p = fork();
    if (p == 0) { struct timespec ts = {0, 150000000}; nanosleep(&ts, NULL); syscall(SYS_kill, me, SIGCONT); _exit(0); }
    syscall(SYS_kill, me, SIGSTOP);
    int st; waitpid(p, &st, 0);
    _exit(n);
  } else if (!strcmp(c, "rlimits")) {
    // getrlimit of every resource, one JSON line on stdout
    static char buf[2048]; int n = 0;
    n += snprintf(buf + n, sizeof buf - n, "{");
    for (int r = 0; r < 16; r++) {
      struct rlimit64 { unsigned long long cur, max; } rl;
      if (syscall(SYS_prlimit64, 0, r, NULL, &rl) != 0) continue;
      n += snprintf(buf + n, sizeof buf - n, "%s\"%d\":[%llu,%llu]", n > 1 ? "," : "", r, rl.cur, rl.max);
    }
    n += snprintf(buf + n, sizeof buf - n, "}\n");
    write(1, buf, n);
    _exit(0);
  } else if (!strcmp(c, "emit")) {
    // emit TOTAL bytes to stdout in chunks of CHUNK; after the first AFTER bytes pause PAUSE ms once;
    // exit 0 when everything was written, 90 + errno class otherwise
    long total = atol(argv[2]), chunk = atol(argv[3]), after = argc > 4 ? atol(argv[4]) : -1, pause_ms = argc > 5 ? atol(argv[5]) : 0;
    char *b = malloc(chunk > 0 ? chunk : 1); memset(b, 'x', chunk > 0 ? chunk : 1);
    signal(SIGPIPE, SIG_IGN);
    long done = 0; int paused = 0;
    while (done < total) {
      if (!paused && after >= 0 && done >= after) { struct timespec ts = {pause_ms / 1000, (pause_ms % 1000) * 1000000L}; nanosleep(&ts, NULL); paused = 1; }
      long w = total - done < chunk ? total - done : chunk;
      ssize_t k = write(1, b, w);
      if (k < 0) { _exit(errno == EPIPE ? 91 : errno == EAGAIN ? 92 : 93); }
      done += k;
    }
    _exit(0);
  } else if (!strcmp(c, "fsize")) {
    // grow a file in the current directory to N bytes
    long total = atol(argv[3]); int fd = open(argv[2], O_CREAT | O_WRONLY | O_TRUNC, 0600);
    if (fd < 0) _exit(94);
    char b[4096]; memset(b, 'y', sizeof b); long done = 0;
    while (done < total) { ssize_t k = write(fd, b, sizeof b); if (k < 0) _exit(errno == EFBIG ? 95 : 96); done += k; }
    _exit(0);
  } else if (!strcmp(c, "mem")) {
    long total = atol(argv[2]); char *m = malloc(total); if (!m) _exit(97);
    for (long i = 0; i < total; i += 4096) m[i] = 1;
    _exit(m[total / 2] == 1 ? 0 : 0);
  } else if (!strcmp(c, "memfault") || !strcmp(c, "spinfault")) {
    // goes beyond a bound (memory touched / CPU time burnt), then dies of a real fault
    long v = atol(argv[2]);
    if (!strcmp(c, "memfault")) { char *m = malloc(v); if (!m) _exit(97); for (long i = 0; i < v; i += 4096) m[i] = 1; }
    else { struct timespec t0, t1; clock_gettime(CLOCK_PROCESS_CPUTIME_ID, &t0); volatile unsigned long x = 0;
      for (;;) { for (int i = 0; i < 100000; i++) x += i; clock_gettime(CLOCK_PROCESS_CPUTIME_ID, &t1);
        if ((t1.tv_sec - t0.tv_sec) * 1000 + (t1.tv_nsec - t0.tv_nsec) / 1000000 >= v) break; } }
    *(volatile int *)8 = 1;
    _exit(0);
  } else if (!strcmp(c, "plant")) {
    // plant KIND PATH [TARGET] ... (triples; TARGET "-" when unused); exit = number of failures
    int fails = 0;
    for (int i = 2; i + 2 < argc + 0 || i + 2 == argc; i += 3) {
      const char *k = argv[i], *p = argv[i + 1], *tg = (i + 2 < argc) ? argv[i + 2] : "-";
      int rc = 0;
      if (!strcmp(k, "reg")) { int fd = open(p, O_CREAT | O_WRONLY | O_TRUNC, 0644); if (fd < 0) rc = -1; else { if (strcmp(tg, "-")) write(fd, tg, strlen(tg)); close(fd); } }
      else if (!strcmp(k, "regx")) { int fd = open(p, O_CREAT | O_EXCL | O_WRONLY, 0644); if (fd < 0) rc = -1; else { if (strcmp(tg, "-")) write(fd, tg, strlen(tg)); close(fd); } }
      else if (!strcmp(k, "dir")) rc = mkdir(p, 0755);
      else if (!strcmp(k, "fifo")) { rc = mkfifo(p, 0666); if (rc != 0 && errno == EEXIST) rc = 0; }
      else if (!strcmp(k, "sym")) rc = symlink(tg, p);
      else if (!strcmp(k, "hard")) rc = link(tg, p);
      else if (!strcmp(k, "chmod")) rc = chmod(p, strtol(tg, NULL, 8));
      else if (!strcmp(k, "many")) {   // tg files named f<i> in directory p
        static char q[8192]; int cnt = atoi(tg);
        for (int j = 0; j < cnt; j++) { snprintf(q, sizeof q, "%s/f%d", p, j); int fd = open(q, O_CREAT | O_EXCL | O_WRONLY, 0600); if (fd < 0) { rc = -1; break; } close(fd); }
      } else if (!strcmp(k, "deep")) { // a chain of tg directories named d below p (deeper than PATH_MAX allows to name)
        int cnt = atoi(tg); int back = open(".", O_RDONLY | O_DIRECTORY);
        if (chdir(p) != 0) rc = -1;
        for (int j = 0; rc == 0 && j < cnt; j++) { if (mkdir("d", 0700) != 0 || chdir("d") != 0) rc = -1; }
        if (rc == 0) { int fd = open("leaf", O_CREAT | O_WRONLY, 0600); if (fd >= 0) close(fd); }
        fchdir(back); close(back);
      }
      else if (!strcmp(k, "sock")) {
        int s = socket(AF_UNIX, SOCK_STREAM, 0); struct sockaddr_un a; memset(&a, 0, sizeof a); a.sun_family = AF_UNIX;
        strncpy(a.sun_path, p, sizeof a.sun_path - 1); rc = bind(s, (struct sockaddr *)&a, sizeof a); close(s);
      } else rc = -1;
      if (rc != 0) fails++;
    }
    _exit(fails);
  } else if (!strcmp(c, "census")) {
    // top-level names of each directory: {"DIR": ["name", ...] | null}; names printed as hex
    static char buf[1 << 20]; int n = 0; n += snprintf(buf + n, sizeof buf - n, "{");
    for (int i = 2; i < argc; i++) {
      n += snprintf(buf + n, sizeof buf - n, "%s\"%s\":", i > 2 ? "," : "", argv[i]);
      DIR *d = opendir(argv[i]);
      if (!d) { n += snprintf(buf + n, sizeof buf - n, "null"); continue; }
      n += snprintf(buf + n, sizeof buf - n, "["); int first = 1; struct dirent *e;
      while ((e = readdir(d))) {
        if (!strcmp(e->d_name, ".") || !strcmp(e->d_name, "..")) continue;
        n += snprintf(buf + n, sizeof buf - n, "%s\"", first ? "" : ","); first = 0;
        for (unsigned char *q = (unsigned char *)e->d_name; *q && n < (int)sizeof buf - 16; q++) n += snprintf(buf + n, sizeof buf - n, "%02x", *q);
        n += snprintf(buf + n, sizeof buf - n, "\"");
      }
      closedir(d); n += snprintf(buf + n, sizeof buf - n, "]");
    }
    n += snprintf(buf + n, sizeof buf - n, "}\n");
    write(1, buf, n);
    _exit(0);
  } else if (!strcmp(c, "probe")) {
    // probe N TAG: N times access("/c17run-TAG/marker"); exit 0
    int n = atoi(argv[2]); static char pth[256]; snprintf(pth, sizeof pth, "/%s/marker", argv[3]);
    for (int i = 0; i < n; i++) syscall(SYS_access, pth, 0);
    _exit(0);
  } else if (!strcmp(c, "threads")) {
    // threads N MS: N extra threads, all sleeping MS milliseconds
    int nt = atoi(argv[2]); long ms = atol(argv[3]); pthread_t th;
    for (int i = 0; i < nt; i++) pthread_create(&th, NULL, (void *(*)(void *))sleep, (void *)(ms / 1000 + 1));
    struct timespec ts = {ms / 1000, (ms % 1000) * 1000000L}; nanosleep(&ts, NULL);
    _exit(0);
  } else if (!strcmp(c, "burn")) {
    // waits for a line on stdin, then burns MS milliseconds of CPU and touches MB megabytes
    char go[8]; if (read(0, go, sizeof go) <= 0) _exit(3);
    long ms = atol(argv[2]), mb = atol(argv[3]);
    char *m = malloc((size_t)mb << 20); if (m) for (long i = 0; i < (mb << 20); i += 4096) m[i] = 1;
    struct timespec t0, t1; clock_gettime(CLOCK_PROCESS_CPUTIME_ID, &t0);
    volatile unsigned long x = 0;
    for (;;) { for (int i = 0; i < 100000; i++) x += i; clock_gettime(CLOCK_PROCESS_CPUTIME_ID, &t1);
      if ((t1.tv_sec - t0.tv_sec) * 1000 + (t1.tv_nsec - t0.tv_nsec) / 1000000 >= ms) break; }
    _exit(0);
  } else if (!strcmp(c, "fsprobe")) {
    // what a program sees of its root: listing of /, reachability of the old root, and per path: statfs flags and a write attempt
    static char buf[1 << 16]; int n = 0; struct stat s1, s2;
    n += snprintf(buf + n, sizeof buf - n, "{\"root\":[");
    DIR *d = opendir("/"); struct dirent *e; int first = 1;
    while (d && (e = readdir(d))) { if (!strcmp(e->d_name, ".") || !strcmp(e->d_name, "..")) continue;
      n += snprintf(buf + n, sizeof buf - n, "%s\"%s\"", first ? "" : ",", e->d_name); first = 0; }
    if (d) closedir(d);
    int up = (stat("/", &s1) == 0 && stat("/..", &s2) == 0 && s1.st_ino == s2.st_ino && s1.st_dev == s2.st_dev);
    n += snprintf(buf + n, sizeof buf - n, "],\"old_root\":%d,\"dotdot_is_root\":%d,\"root_write\":%d,\"paths\":{", access("/old_root", F_OK) == 0, up,
                  mkdir("/.probe_dir", 0700) == 0 ? (rmdir("/.probe_dir"), 0) : errno);
    for (int i = 2; i < argc; i++) {
      struct statfs sf; int ro = -1; long ty = 0; if (statfs(argv[i], &sf) == 0) { ro = (sf.f_flags & 1) ? 1 : 0; ty = (long)sf.f_type; }
      int werr = 0; struct stat st; static char pth[4200];
      if (stat(argv[i], &st) != 0) werr = -errno;
      else if (S_ISDIR(st.st_mode)) { snprintf(pth, sizeof pth, "%s/.probe_file", argv[i]); int fd = open(pth, O_CREAT | O_WRONLY, 0600); if (fd < 0) werr = errno; else { close(fd); unlink(pth); } }
      else { int fd = open(argv[i], O_WRONLY | O_APPEND); if (fd < 0) werr = errno; else close(fd); }
      n += snprintf(buf + n, sizeof buf - n, "%s\"%s\":{\"ro\":%d,\"write_errno\":%d,\"type\":%ld}", i > 2 ? "," : "", argv[i], ro, werr, ty);
    }
    // masked proc entries
    int kc = -2; { int fd = open("/proc/timer_list", O_RDONLY); if (fd >= 0) { char b8[8]; kc = (int)read(fd, b8, 8); close(fd); } else kc = -errno; }
    // masked proc directories: nothing can be put into them (0 = a file was created there, -2 = no such directory)
    int md = -2; { struct stat st; if (stat("/proc/acpi", &st) == 0 && S_ISDIR(st.st_mode)) { int fd = open("/proc/acpi/.probe_file", O_CREAT | O_WRONLY, 0600);
        if (fd >= 0) { md = 0; close(fd); unlink("/proc/acpi/.probe_file"); } else md = errno; } }
    // inherited descriptors other than stdio: a directory among them is a way out of the declared tree
    n += snprintf(buf + n, sizeof buf - n, "},\"extra_fds\":[");
    { int f1 = 1; for (int fd = 3; fd < 256; fd++) { struct stat st; if (fstat(fd, &st) != 0) continue;
        int isdir = S_ISDIR(st.st_mode); int reach = 0;
        if (isdir) { int t = openat(fd, "etc/hostname", O_RDONLY); if (t >= 0) { reach = 1; close(t); } else { t = openat(fd, "tmp", O_RDONLY | O_DIRECTORY); if (t >= 0) { reach = 2; close(t); } } }
        n += snprintf(buf + n, sizeof buf - n, "%s[%d,%d,%d]", f1 ? "" : ",", fd, isdir, reach); f1 = 0; } }
    n += snprintf(buf + n, sizeof buf - n, "],\"kcore_read\":%d,\"maskdir_write\":%d}\n", kc, md);
    write(1, buf, n);
    _exit(0);
  } else if (!strcmp(c, "secstate")) {
    // self-report of the security state at the first instruction, one JSON object into the file argv[2]
    static char buf[8192], lk[256]; int n = 0;
    struct { unsigned int version; int pid; } hdr = {0x20080522, 0};
    struct { unsigned int eff, perm, inh; } data[2]; memset(data, 0, sizeof data);
    syscall(SYS_capget, &hdr, data);
    uid_t ru, eu, su; gid_t rg, eg, sg; getresuid(&ru, &eu, &su); getresgid(&rg, &eg, &sg);
    gid_t gl[64]; int ng = getgroups(64, gl);
    struct { char s[6][65]; } un; syscall(SYS_uname, &un);
    static char cwd[4096]; if (!getcwd(cwd, sizeof cwd)) cwd[0] = 0;
    n += snprintf(buf + n, sizeof buf - n, "{\"uid\":[%d,%d,%d],\"gid\":[%d,%d,%d],\"groups\":[", ru, eu, su, rg, eg, sg);
    for (int i = 0; i < ng; i++) n += snprintf(buf + n, sizeof buf - n, "%s%d", i ? "," : "", gl[i]);
    n += snprintf(buf + n, sizeof buf - n, "],\"cap_eff\":[%u,%u],\"cap_perm\":[%u,%u],\"cap_inh\":[%u,%u],", data[0].eff, data[1].eff, data[0].perm, data[1].perm, data[0].inh, data[1].inh);
    int amb = 0; for (int cap = 0; cap < 41; cap++) if (prctl(47 /*PR_CAP_AMBIENT*/, 1 /*IS_SET*/, cap, 0, 0) == 1) amb++;
    n += snprintf(buf + n, sizeof buf - n, "\"ambient\":%d,\"securebits\":%d,\"nnp\":%d,\"seccomp\":%d,", amb, prctl(27 /*PR_GET_SECUREBITS*/), prctl(39 /*PR_GET_NO_NEW_PRIVS*/, 0, 0, 0, 0), prctl(21 /*PR_GET_SECCOMP*/));
    n += snprintf(buf + n, sizeof buf - n, "\"pid\":%d,\"sid\":%d,\"pgid\":%d,\"cwd\":\"%s\",\"host\":\"%s\",\"domain\":\"%s\",\"ns\":{", getpid(), getsid(0), getpgid(0), cwd, un.s[1], un.s[5]);
    const char *nss[] = {"user", "pid", "mnt", "uts", "ipc", "net", "cgroup"};
    for (int i = 0; i < 7; i++) {
      static char pth[64]; snprintf(pth, sizeof pth, "/proc/self/ns/%s", nss[i]);
      ssize_t l = readlink(pth, lk, sizeof lk - 1); lk[l < 0 ? 0 : l] = 0;
      n += snprintf(buf + n, sizeof buf - n, "%s\"%s\":\"%s\"", i ? "," : "", nss[i], lk);
    }
    // seccomp filter count from /proc/self/status
    int nf = -1; FILE *st = fopen("/proc/self/status", "r");
    if (st) { static char ln[256]; while (fgets(ln, sizeof ln, st)) if (!strncmp(ln, "Seccomp_filters:", 16)) nf = atoi(ln + 16); fclose(st); }
    n += snprintf(buf + n, sizeof buf - n, "},\"filters\":%d}\n", nf);
    int fd = open(argv[2], O_CREAT | O_WRONLY | O_TRUNC, 0666);
    if (fd < 0) { write(1, buf, n); _exit(0); }
    write(fd, buf, n); close(fd);
    _exit(0);
  } else if (!strcmp(c, "verdicts")) {
    _exit(verdicts(argv[2], argv[3], argv[4]));
  } else if (!strcmp(c, "pathops")) {
    _exit(pathops(argv[2], argv[3]));
  } else if (!strcmp(c, "selfmod")) {
    // try to modify the running executable through /proc/self/exe and every inherited descriptor; prints what succeeded
    static char buf[4096]; int n = 0; int ok = 0;
    int fd = open("/proc/self/exe", O_WRONLY); if (fd >= 0) { if (write(fd, "X", 1) == 1) ok |= 1; if (ftruncate(fd, 0) == 0) ok |= 2; close(fd); }
    fd = open("/proc/self/exe", O_RDWR); if (fd >= 0) { if (pwrite(fd, "X", 1, 0) == 1) ok |= 4; close(fd); }
    if (truncate("/proc/self/exe", 0) == 0) ok |= 8;
    for (fd = 3; fd < 64; fd++) {
      struct stat st; if (fstat(fd, &st) != 0) continue;
      if (pwrite(fd, "X", 1, 0) == 1) ok |= 16;
      if (ftruncate(fd, 1) == 0) ok |= 32;
    }
    fd = open("/proc/self/exe", O_RDONLY);
    if (fd >= 0) {
      if (fcntl(fd, F_ADD_SEALS, 0) == 0) ok |= 64;
      void *m = mmap(NULL, 4096, PROT_READ | PROT_WRITE, MAP_SHARED, fd, 0); if (m != MAP_FAILED) ok |= 128;
      int seals = fcntl(fd, F_GET_SEALS); n += snprintf(buf + n, sizeof buf - n, "seals=%d ", seals);
      close(fd);
    }
    n += snprintf(buf + n, sizeof buf - n, "modified=%d\n", ok);
    write(1, buf, n);
    _exit(0);
  } else if (!strcmp(c, "kinds")) {
    // lstat kind of each path, one JSON array on stdout
    static char buf[65536]; int n = 0; n += snprintf(buf + n, sizeof buf - n, "[");
    for (int i = 2; i < argc; i++) {
      struct stat st; static char k[4200];
      if (lstat(argv[i], &st) != 0) snprintf(k, sizeof k, "absent");
      else if (S_ISREG(st.st_mode)) snprintf(k, sizeof k, "reg:%ld", (long)st.st_size);
      else if (S_ISDIR(st.st_mode)) snprintf(k, sizeof k, "dir");
      else if (S_ISFIFO(st.st_mode)) snprintf(k, sizeof k, "fifo");
      else if (S_ISSOCK(st.st_mode)) snprintf(k, sizeof k, "sock");
      else if (S_ISLNK(st.st_mode)) { static char tg[4096]; ssize_t l = readlink(argv[i], tg, sizeof tg - 1); tg[l < 0 ? 0 : l] = 0; snprintf(k, sizeof k, "sym:%s", tg); }
      else snprintf(k, sizeof k, "other");
      n += snprintf(buf + n, sizeof buf - n, "%s\"%s\"", i > 2 ? "," : "", k);
    }
    n += snprintf(buf + n, sizeof buf - n, "]\n");
    write(1, buf, n);
    _exit(0);
  } else if (!strcmp(c, "fdsenv")) {
    // as "fds", started as the interpreter of a script: the report goes to the file named by VERIF_OUT
    static char buf[1 << 16]; int n = 0; n += snprintf(buf + n, sizeof buf - n, "["); int first = 1;
    for (int fd = 0; fd < 1024; fd++) {
      struct stat st; if (fstat(fd, &st) != 0) continue;
      int fl = fcntl(fd, F_GETFL), fdfl = fcntl(fd, F_GETFD);
      n += snprintf(buf + n, sizeof buf - n, "%s[%d,%lu,%lu,%d,%d]", first ? "" : ",", fd, (unsigned long)st.st_dev, (unsigned long)st.st_ino, fl & 3, fdfl & 1);
      first = 0;
    }
    n += snprintf(buf + n, sizeof buf - n, "]\n");
    const char *outp = getenv("VERIF_OUT"); if (!outp) _exit(97);
    int out = open(outp, O_CREAT | O_WRONLY | O_TRUNC, 0600); if (out < 0) _exit(98);
    write(out, buf, n); close(out);
    _exit(0);
  } else if (!strcmp(c, "fds")) {
    // descriptor table of this process: [[fd, dev, ino, accmode, cloexec], ...] written to the file argv[2]
    static char buf[1 << 20]; int n = 0; n += snprintf(buf + n, sizeof buf - n, "[");
    int first = 1, maxfd = argc > 3 ? atoi(argv[3]) : 4096;
    for (int fd = 0; fd < maxfd; fd++) {
      struct stat st; if (fstat(fd, &st) != 0) continue;
      int fl = fcntl(fd, F_GETFL), fdfl = fcntl(fd, F_GETFD);
      n += snprintf(buf + n, sizeof buf - n, "%s[%d,%lu,%lu,%d,%d]", first ? "" : ",", fd, (unsigned long)st.st_dev, (unsigned long)st.st_ino, fl & 3, fdfl & 1);
      first = 0;
    }
    n += snprintf(buf + n, sizeof buf - n, "]\n");
    if (!strcmp(argv[2], "-")) { write(1, buf, n); _exit(argc > 4 ? atoi(argv[4]) : 0); }
    int out = open(argv[2], O_CREAT | O_WRONLY | O_TRUNC, 0600);
    if (out < 0) _exit(98);
    write(out, buf, n); close(out);
    _exit(0);
  } else if (!strcmp(c, "hostile")) {
    // syscalls with adversarial arguments; prints "name=ret/errno ..." and exits 0
    const char *k = argv[2];
    char *reg = mmap(NULL, 3 * 4096, PROT_READ | PROT_WRITE, MAP_PRIVATE | MAP_ANONYMOUS, -1, 0);
    mprotect(reg + 2 * 4096, 4096, PROT_NONE);
    long r = 0;
    if (!strcmp(k, "unterminated")) { memset(reg, 'a', 2 * 4096); r = syscall(SYS_open, reg, O_RDONLY); }
    else if (!strcmp(k, "exact4096")) { memset(reg, 'a', 2 * 4096); reg[4096] = 0; r = syscall(SYS_open, reg, O_RDONLY); }
    else if (!strcmp(k, "unaligned_long")) { memset(reg, 'a', 2 * 4096); reg[8191] = 0; r = syscall(SYS_open, reg + 100, O_RDONLY); }
    else if (!strcmp(k, "cross_unmapped")) { memset(reg, 'b', 2 * 4096); r = syscall(SYS_open, reg + 2 * 4096 - 10, O_RDONLY); }
    else if (!strcmp(k, "cross_ok")) { memset(reg, 0, 2 * 4096); strcpy(reg + 4096 - 5, "/dev/null"); r = syscall(SYS_open, reg + 4096 - 5, O_RDONLY); if (r < 0) _exit(50); }
    else if (!strcmp(k, "null_ptr")) { r = syscall(SYS_open, 8L, O_RDONLY); }
    else if (!strcmp(k, "kernel_ptr")) { r = syscall(SYS_open, 0xffff800000000000UL, O_RDONLY); }
    else if (!strcmp(k, "noncanonical_ptr")) { r = syscall(SYS_open, 0x8000000000000000UL, O_RDONLY); }
    else if (!strcmp(k, "unmapped_page")) { r = syscall(SYS_open, reg + 2 * 4096 + 7, O_RDONLY); }
    else if (!strcmp(k, "garbage_dirfd")) { strcpy(reg, "/dev/null"); r = syscall(SYS_openat, 0xdeadbeef00000003UL, reg, O_RDONLY); }
    else if (!strcmp(k, "huge_dirfd")) { strcpy(reg, "x"); r = syscall(SYS_openat, 0x7fffffffffffffffUL, reg, O_RDONLY); }
    else if (!strcmp(k, "unknown_syscall")) { r = syscall(9999); }
    else if (!strcmp(k, "negative_syscall")) { r = syscall(-5L); }
    else if (!strcmp(k, "x32_syscall")) { r = syscall(0x40000000L | 2, reg, 0); }
    else if (!strcmp(k, "sysno_bit63") || !strcmp(k, "sysno_upper_ones") || !strcmp(k, "sysno_upper_garbage")) {
      // the kernel and the filter look at the low 32 bits of rax (2 = open), the tracer reads all 64
      unsigned long nr = !strcmp(k, "sysno_bit63") ? 0x8000000000000002UL : !strcmp(k, "sysno_upper_ones") ? 0xffffffff00000002UL : 0x0000000100000002UL;
      strcpy(reg, "/dev/null");
      register long rax __asm__("rax") = (long)nr; register long rdi __asm__("rdi") = (long)reg; register long rsi __asm__("rsi") = 0;
      __asm__ volatile("syscall" : "+r"(rax) : "r"(rdi), "r"(rsi) : "rcx", "r11", "memory");
      r = rax;
    }
    else if (!strcmp(k, "openat2_bad_how")) { strcpy(reg, "/dev/null"); r = syscall(437, -100, reg, 8L, 24L); }
    else if (!strcmp(k, "openat2_how_cross")) { strcpy(reg, "/dev/null"); r = syscall(437, -100, reg, reg + 2 * 4096 - 4, 24L); }
    else if (!strncmp(k, "openat2_size_", 13)) {
      // a well-formed call first, then one whose size argument is not sizeof(struct open_how): the kernel answers EINVAL / E2BIG
      static unsigned long how[8]; strcpy(reg, "/dev/null");
      r = syscall(437, -100, reg, how, 24L);
      const char *z = k + 13;
      unsigned long sz = !strcmp(z, "8") ? 8UL : !strcmp(z, "0") ? 0UL : !strcmp(z, "23") ? 23UL : !strcmp(z, "neg") ? (unsigned long)-1L : !strcmp(z, "huge") ? 1UL << 40 : 4097UL;
      r = syscall(437, -100, reg, how, sz);
    }
    else if (!strncmp(k, "open_flags_", 11)) {
      // every value of the flags argument is the program's to choose: access mode 3, all bits, upper garbage; open, openat and openat2
      unsigned long fl = strtoul(k + 11, NULL, 16); static unsigned long how[3]; how[0] = fl;
      strcpy(reg, "/dev/null");
      r = syscall(SYS_open, reg, fl); r = syscall(SYS_openat, -100, reg, fl); r = syscall(437, -100, reg, how, 24L);
    }
    else if (!strcmp(k, "execve_bad")) { r = syscall(SYS_execve, 8L, 8L, 8L); }
    else if (!strcmp(k, "symlink_nest")) {
      // symlinks that never resolve: a self-nesting link and a two-link cycle, reached by absolute path
      static char cwd[2048], pth[4096]; if (!getcwd(cwd, sizeof cwd)) _exit(51);
      unlink("loop"); unlink("a"); unlink("b");
      symlink("loop/x", "loop"); symlink("b", "a"); symlink("a", "b");
      snprintf(pth, sizeof pth, "%s/loop/file", cwd); r = syscall(SYS_open, pth, O_RDONLY);
      snprintf(pth, sizeof pth, "%s/a", cwd); r = syscall(SYS_open, pth, O_RDONLY);
      r = syscall(SYS_open, "loop/deeper/file", O_RDONLY);
      unlink("loop"); unlink("a"); unlink("b");
    }
    else if (!strcmp(k, "threads_exit")) {
      // threads issue traced syscalls while the main task leaves with exit_group
      for (int i = 0; i < 8; i++) { pthread_t th; pthread_create(&th, NULL, opener, NULL); }
      struct timespec ts = {0, 2000000}; nanosleep(&ts, NULL);
      syscall(SYS_exit_group, 0);
    }
    else if (!strcmp(k, "clone_exit")) {
      // create tasks and leave at once: the new tasks may be gone before the tracer looks at them
      for (int i = 0; i < 4; i++) { pthread_t th; pthread_create(&th, NULL, opener, NULL); }
      syscall(SYS_exit_group, 0);
    }
    else if (!strcmp(k, "fork_kill")) {
      for (int i = 0; i < 4; i++) { pid_t p = fork(); if (p == 0) { for (;;) syscall(SYS_open, "/dev/null", O_RDONLY); } }
      syscall(SYS_exit_group, 0);
    }
    else _exit(3);
    (void)r;
    _exit(0);
  } else if (!strcmp(c, "tree")) {
    // tree N TOKEN [setsid]: N descendants (two generations), every one ignoring all signals; sleeps for a minute
    int n = atoi(argv[2]);
    for (int s = 1; s < 65; s++) signal(s, SIG_IGN);
    for (int i = 0; i < n; i++) {
      pid_t p = fork();
      if (p == 0) {
        if (argc > 4 && !strcmp(argv[4], "setsid")) setsid();
        if (fork() == 0) { for (;;) { struct timespec ts = {1, 0}; nanosleep(&ts, NULL); } }
        for (;;) { struct timespec ts = {1, 0}; nanosleep(&ts, NULL); }
      }
    }
    // one more descendant made the way posix_spawn / system() make theirs: vfork, then exec
    if (n > 0) { pid_t v = vfork(); if (v == 0) { execl("/proc/self/exe", "probe_target", "linger", argv[3], (char *)NULL); _exit(97); } }
    write(1, "up\n", 3);
    for (int k = 0; k < 60; k++) { struct timespec ts = {1, 0}; nanosleep(&ts, NULL); }
    _exit(0);
  } else if (!strcmp(c, "linger")) {
    for (int s = 1; s < 65; s++) signal(s, SIG_IGN);
    for (int k = 0; k < 60; k++) { struct timespec ts = {1, 0}; nanosleep(&ts, NULL); }
    _exit(0);
  } else if (!strcmp(c, "mark")) {
    int fd = open(argv[2], O_CREAT | O_WRONLY, 0600); if (fd >= 0) close(fd);
    _exit(fd >= 0 ? 0 : 99);
  } else if (!strcmp(c, "hello")) {
    write(1, "hello\n", 6); _exit(0);
  } else if (!strcmp(c, "load")) {
    // load MEMBYTES CPUMS SLEEPMS: builds a resource profile (touches MEMBYTES of memory and keeps them, burns CPUMS ms of CPU),
    // says so with one byte on stdout, then lives on for SLEEPMS ms and exits 0
    long mem = atol(argv[2]), cpu = atol(argv[3]), ms = atol(argv[4]);
    if (mem > 0) { volatile char *m = malloc(mem); if (!m) _exit(97); for (long i = 0; i < mem; i += 4096) m[i] = 1; m[mem - 1] = 1; }
    if (cpu > 0) { struct timespec t0, t1; clock_gettime(CLOCK_PROCESS_CPUTIME_ID, &t0); volatile unsigned long x = 0;
      for (;;) { for (int i = 0; i < 100000; i++) x += i; clock_gettime(CLOCK_PROCESS_CPUTIME_ID, &t1);
        if ((t1.tv_sec - t0.tv_sec) * 1000 + (t1.tv_nsec - t0.tv_nsec) / 1000000 >= cpu) break; } }
    if (write(1, "R", 1) != 1) _exit(98);
    struct timespec ts = {ms / 1000, (ms % 1000) * 1000000L}; nanosleep(&ts, NULL);
    _exit(0);
  }
  return 3;
}

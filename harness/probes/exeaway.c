// exeaway (static): a program that attacks the executable it was started from -- first while it still runs from it,
// then after it has replaced its image by ANOTHER program (the executable is then no longer busy as program text),
// through descriptors of the executable it kept across the exec.
//   exeaway run <other-binary>      prints one line: "inplace=<mask> away=<mask> size=<before>-><after> seals=<n>"
//   exeaway stage2 <fd> <opathfd> <inplace-mask> <size-before>      (second stage, run from <other-binary>)
// A mask of 0 means that no attempt succeeded.  Exit 0 when the report was printed, 3 when the set-up failed.
#define _GNU_SOURCE
#include <errno.h>
#include <fcntl.h>
#include <stdio.h>
#include <stdlib.h>
#include <string.h>
#include <sys/mman.h>
#include <sys/stat.h>
#include <sys/types.h>
#include <unistd.h>

static int attack(const char *path, long size) {
  // every way of writing, truncating, growing or unsealing the file behind path; returns the mask of what succeeded
  int ok = 0;
  int g = open(path, O_RDWR);
  if (g >= 0) {
    if (ftruncate(g, size + 4096) == 0) ok |= 1;                                   // grown
    if (pwrite(g, "X", 1, 0) == 1) ok |= 2;                                       // written
    if (pwrite(g, "X", 1, size) == 1) ok |= 4;                                    // appended
    void *m = mmap(NULL, 4096, PROT_READ | PROT_WRITE, MAP_SHARED, g, 0);
    if (m != MAP_FAILED) { ok |= 8; munmap(m, 4096); }                            // shared writable mapping
    if (fcntl(g, F_ADD_SEALS, 0x10 /* F_SEAL_FUTURE_WRITE */) == 0) ok |= 16;     // seal set changed
    if (size > 1 && ftruncate(g, 1) == 0) ok |= 32;                               // shrunk
    close(g);
  }
  g = open(path, O_WRONLY);
  if (g >= 0) {
    if (write(g, "X", 1) == 1) ok |= 2;
    if (size > 0 && ftruncate(g, 0) == 0) ok |= 32;
    close(g);
  }
  if (size > 0 && truncate(path, 0) == 0) ok |= 64;                               // truncated by name
  g = open(path, O_WRONLY | O_TRUNC);
  if (g >= 0) { if (size > 0) ok |= 128; close(g); }                              // truncated at open
  return ok;
}

int main(int argc, char **argv) {
  static char buf[512];
  if (argc >= 3 && !strcmp(argv[1], "run")) {
    struct stat st;
    int fd = open("/proc/self/exe", O_RDONLY);            // kept across the exec (no O_CLOEXEC)
    if (fd < 0 || fstat(fd, &st) != 0) { int n = snprintf(buf, sizeof buf, "setup failed: open /proc/self/exe errno=%d\n", errno); write(1, buf, n); _exit(3); }
    int pfd = open("/proc/self/exe", O_PATH);
    int inplace = attack("/proc/self/exe", (long)st.st_size);
    char a[16], b[16], c[16], d[32];
    snprintf(a, sizeof a, "%d", fd); snprintf(b, sizeof b, "%d", pfd); snprintf(c, sizeof c, "%d", inplace); snprintf(d, sizeof d, "%ld", (long)st.st_size);
    execl(argv[2], argv[2], "stage2", a, b, c, d, (char *)NULL);
    int n = snprintf(buf, sizeof buf, "setup failed: exec %s errno=%d\n", argv[2], errno); write(1, buf, n);
    _exit(3);
  }
  if (argc >= 6 && !strcmp(argv[1], "stage2")) {
    int fd = atoi(argv[2]), pfd = atoi(argv[3]), inplace = atoi(argv[4]); long size = atol(argv[5]);
    struct stat st;
    char p[64];
    int away = 0;
    // directly through the kept (read-only) descriptor
    if (pwrite(fd, "X", 1, 0) == 1) away |= 2;
    if (size > 0 && ftruncate(fd, 0) == 0) away |= 32;
    if (fcntl(fd, F_ADD_SEALS, 0x10) == 0) away |= 16;
    // re-opened through /proc/self/fd/N, now that no process runs the file any more
    snprintf(p, sizeof p, "/proc/self/fd/%d", fd);
    away |= attack(p, size);
    if (pfd >= 0) { snprintf(p, sizeof p, "/proc/self/fd/%d", pfd); away |= attack(p, size); }
    long after = -1; int seals = -1;
    if (fstat(fd, &st) == 0) after = (long)st.st_size;
    seals = fcntl(fd, F_GET_SEALS);
    int n = snprintf(buf, sizeof buf, "inplace=%d away=%d size=%ld->%ld seals=%d\n", inplace, away, size, after, seals);
    write(1, buf, n);
    _exit(0);
  }
  return 2;
}

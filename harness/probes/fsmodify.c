// fsmodify: modifications of objects that EXIST below a mount (C05), and which proc instance a proc mount shows.
//   probe_fsmodify [w:<file> | p:<procdir>]... -- <program> <args>...
// w:<file>    open(<file>, O_WRONLY) and write its own first byte back (content unchanged); for a file below a proc mount
//             ("self/comm") the current name is written back
// p:<procdir> does <procdir>/self name this very process (the proc instance of the program's own pid namespace)?
//             and how many numeric entries are listed there
// prints ONE line of JSON, then execs <program> <args>... (the FS probe), whose output follows on the next line.
#define _GNU_SOURCE
#include <dirent.h>
#include <errno.h>
#include <fcntl.h>
#include <stdio.h>
#include <stdlib.h>
#include <string.h>
#include <sys/stat.h>
#include <sys/vfs.h>
#include <unistd.h>

int main(int argc, char **argv) {
  static char buf[1 << 16]; int n = 0, i, first = 1;
  n += snprintf(buf + n, sizeof buf - n, "{");
  for (i = 1; i < argc && strcmp(argv[i], "--"); i++) {
    const char *p = argv[i] + 2;
    if (!strncmp(argv[i], "w:", 2)) {
      int oerr = 0, werr = -1, rerr = 0; char b[64]; ssize_t l = 0;
      int rfd = open(p, O_RDONLY);
      if (rfd < 0) rerr = errno; else { l = read(rfd, b, sizeof b); if (l < 0) { rerr = errno; l = 0; } close(rfd); }
      int fd = open(p, O_WRONLY);
      if (fd < 0) oerr = errno;
      else {
        // the same bytes again: the object is modified (mtime, a write reaches the file system) without changing what it holds
        if (l <= 0) { b[0] = 'x'; l = 1; }
        werr = write(fd, b, (size_t)l) < 0 ? errno : 0; close(fd);
      }
      n += snprintf(buf + n, sizeof buf - n, "%s\"%s\":{\"read_errno\":%d,\"open_errno\":%d,\"write_errno\":%d}", first ? "" : ",", argv[i], rerr, oerr, werr);
      first = 0;
    } else if (!strncmp(argv[i], "p:", 2)) {
      static char pth[4200], lk[64]; int self = -1, pids = 0, others = 0; long ty = 0; struct statfs sf;
      if (statfs(p, &sf) == 0) ty = (long)sf.f_type;
      snprintf(pth, sizeof pth, "%s/self", p);
      ssize_t l = readlink(pth, lk, sizeof lk - 1);
      if (l < 0) self = -errno; else { lk[l] = 0; self = atoi(lk) == (int)getpid() ? 1 : 0; }
      DIR *d = opendir(p); struct dirent *e;
      while (d && (e = readdir(d))) { if (e->d_name[0] >= '0' && e->d_name[0] <= '9') { pids++; if (atoi(e->d_name) != (int)getpid()) others++; } }
      if (d) closedir(d);
      n += snprintf(buf + n, sizeof buf - n, "%s\"%s\":{\"self_is_me\":%d,\"pids\":%d,\"other_pids\":%d,\"type\":%ld,\"my_pid\":%d}", first ? "" : ",", argv[i], self, pids, others, ty, (int)getpid());
      first = 0;
    }
  }
  n += snprintf(buf + n, sizeof buf - n, "}\n");
  if (write(1, buf, n) != n) _exit(96);
  if (i + 1 >= argc) _exit(0);
  execv(argv[i + 1], argv + i + 1);
  _exit(97);
}

// probe_c10esc: a program whose descendants are no longer in its process group / session when it ends or is killed
// (what shells with job control, daemons and service supervisors do).  Used by the check of C10: whatever a program
// does with its process tree is a matter of the program; the environment must answer the calls that follow.
//
//   probe_c10esc MODE CODE HOLD_MS [COUNT]
//   probe_c10esc mark PATH CODE          (creates PATH, ends with CODE: "the program has run")
//
// MODE   setsid   COUNT children, each the leader of a new session
//        setpgid  COUNT children, each the leader of a new process group in the program's session
//        daemon   COUNT daemons: child -> setsid -> grandchild; the child exits, the grandchild is an orphan in a session
//                 whose leader is gone
//        joinpg   one child founds a group, COUNT further children join that group
//        nested   child -> setsid -> grandchild -> setsid -> great-grandchild, all of them stay
//        ingroup  COUNT children that stay in the program's group (the ordinary case, for comparison)
// The program waits until every lingering descendant has reported that it is where it wants to be, writes "up", then
// sleeps HOLD_MS and ends with exit code CODE; HOLD_MS < 0: it sleeps for two minutes (it is meant to be killed).
// Lingering descendants ignore every signal that can be ignored, hold no descriptor of the program and sleep two minutes.
#define _GNU_SOURCE
#include <fcntl.h>
#include <signal.h>
#include <stdio.h>
#include <stdlib.h>
#include <string.h>
#include <sys/types.h>
#include <sys/wait.h>
#include <time.h>
#include <unistd.h>

static int rp[2];

static void msleep(long ms) {
  struct timespec ts = {ms / 1000, (ms % 1000) * 1000000L};
  while (nanosleep(&ts, &ts) != 0) {}
}

// a descendant gives up the descriptors of the program BEFORE it leaves the group: whoever reads the program's output is not
// kept waiting by it, whatever becomes of it
static void detach(void) {
  int n = open("/dev/null", O_RDWR);
  if (n < 0) n = open("/", O_RDONLY | O_DIRECTORY);   // a container without /dev/null: anything that is not the program's
  if (n >= 0) { dup2(n, 0); dup2(n, 1); dup2(n, 2); if (n > 2) close(n); }
  else { close(0); close(1); close(2); }
}

static void linger(void) {
  for (int s = 1; s < 65; s++) signal(s, SIG_IGN);
  write(rp[1], "r", 1);
  close(rp[1]);
  for (int fd = 3; fd < 64; fd++) close(fd);
  msleep(120000);
  _exit(0);
}

int main(int argc, char **argv) {
  if (argc < 4) return 2;
  const char *mode = argv[1];
  if (!strcmp(mode, "mark")) {   // mark PATH CODE: leaves a file behind and ends with CODE
    int fd = open(argv[2], O_CREAT | O_WRONLY, 0600);
    if (fd < 0) _exit(98);
    close(fd);
    _exit(atoi(argv[3]));
  }
  int code = atoi(argv[2]);
  long hold = atol(argv[3]);
  int count = argc > 4 ? atoi(argv[4]) : 1;
  int expect = 0;
  if (pipe(rp) != 0) return 2;
  if (!strcmp(mode, "joinpg")) {
    int gp[2];
    if (pipe(gp) != 0) return 2;
    pid_t leader = fork();
    if (leader == 0) { close(rp[0]); detach(); setpgid(0, 0); write(gp[1], "g", 1); close(gp[0]); close(gp[1]); linger(); }
    char b;
    read(gp[0], &b, 1);
    expect = 1;
    for (int i = 0; i < count; i++) {
      pid_t p = fork();
      if (p == 0) { close(rp[0]); close(gp[0]); close(gp[1]); detach(); setpgid(0, leader); linger(); }
      expect++;
    }
    close(gp[0]); close(gp[1]);
  } else if (!strcmp(mode, "nested")) {
    pid_t p = fork();
    if (p == 0) {
      close(rp[0]);
      detach();
      setsid();
      if (fork() == 0) { setsid(); if (fork() == 0) linger(); linger(); }
      linger();
    }
    expect = 3;
  } else {
    for (int i = 0; i < count; i++) {
      pid_t p = fork();
      if (p < 0) return 2;
      if (p == 0) {
        close(rp[0]);
        detach();
        if (!strcmp(mode, "setsid")) setsid();
        else if (!strcmp(mode, "setpgid")) setpgid(0, 0);
        else if (!strcmp(mode, "daemon")) {
          setsid();
          pid_t g = fork();
          if (g != 0) _exit(0);
        }
        linger();
      }
      if (!strcmp(mode, "daemon")) waitpid(p, NULL, 0);
      expect++;
    }
  }
  close(rp[1]);
  char b;
  for (int got = 0; got < expect; ) {
    ssize_t r = read(rp[0], &b, 1);
    if (r <= 0) break;
    got++;
  }
  write(1, "up\n", 3);
  if (hold < 0) { msleep(120000); _exit(0); }
  msleep(hold);
  _exit(code);
}

// pathopsx: the scripted path syscalls of "target pathops" (exact register values, the kernel's own resolution of every
// (dirfd, pathname) pair) for forests whose names contain ANY byte: every string of the script (directories, pathnames) and
// every path written to the report is escaped (%XX for '%', bytes <= 0x20 and bytes >= 0x7f), so that names with blanks,
// line ends, parentheses, ... -- e.g. names that look like the decorations the kernel adds to the text of /proc links --
// pass through unchanged.  Usage: probe_pathopsx SCRIPT OUT   (static)
#define _GNU_SOURCE
#include <errno.h>
#include <fcntl.h>
#include <stdio.h>
#include <stdlib.h>
#include <string.h>
#include <sys/mman.h>
#include <sys/stat.h>
#include <sys/syscall.h>
#include <sys/types.h>
#include <unistd.h>

static int po_slots[16];

static int hexv(int c) { return c >= '0' && c <= '9' ? c - '0' : c >= 'a' && c <= 'f' ? c - 'a' + 10 : c >= 'A' && c <= 'F' ? c - 'A' + 10 : -1; }
// in place: %XX -> byte
static char *unesc(char *s) {
  char *o = s;
  for (char *q = s; *q; ) {
    if (q[0] == '%' && hexv(q[1]) >= 0 && hexv(q[2]) >= 0) { *o++ = (char)(hexv(q[1]) * 16 + hexv(q[2])); q += 3; }
    else *o++ = *q++;
  }
  *o = 0; return s;
}
static void put_esc(FILE *out, const char *s) {
  for (const unsigned char *q = (const unsigned char *)s; *q; q++) {
    if (*q == '%' || *q <= 0x20 || *q >= 0x7f) fprintf(out, "%%%02X", *q); else fputc(*q, out);
  }
}

static unsigned long po_dspec(const char *d) {
  // cwd:sx | cwd:zx | cwd:gb | slot:N:sx|zx|gb | num:V
  unsigned long lo;
  const char *enc;
  if (!strncmp(d, "cwd:", 4)) { lo = 0xffffff9cUL; enc = d + 4; }
  else if (!strncmp(d, "slot:", 5)) { lo = (unsigned long)(unsigned int)po_slots[atoi(d + 5) & 15]; enc = strchr(d + 5, ':') + 1; }
  else return strtoul(d + 4, NULL, 0);
  if (!strcmp(enc, "sx")) return (unsigned long)(long)(int)lo;
  if (!strcmp(enc, "gb")) return 0xdeadbeef00000000UL | lo;
  return lo;
}
// The kernel counts the links it has followed across its own restarts of one lookup (a walk that starts in RCU mode and has
// to start again in reference mode keeps the count of the first attempt), so a chain close to the limit of 40 links can fail
// with ELOOP once and resolve the next time, when the entries are cached.  A chain over the limit, or a real loop, fails
// every time.  The kernel's resolution of a (dirfd, pathname) pair is therefore taken from repeated attempts.
static int open_again(int dfd, const char *path, int flags) {
  int fd = -1;
  for (int i = 0; i < 12; i++) {
    fd = openat(dfd, path, flags);
    if (fd >= 0 || errno != ELOOP) break;
  }
  return fd;
}
static void po_truth(FILE *out, int dfd, const char *path, int nofollow) {
  static char link[64], res[8192];
  fputc(' ', out);
  int fd = open_again(dfd, path, O_PATH | (nofollow ? O_NOFOLLOW : 0));
  if (fd >= 0) {
    snprintf(link, sizeof link, "/proc/self/fd/%d", fd);
    ssize_t l = readlink(link, res, sizeof res - 1); close(fd);
    if (l < 0) { fprintf(out, "!readlink"); return; }
    res[l] = 0; put_esc(out, res); return;
  }
  if (errno != ENOENT) { fprintf(out, "!e%d", errno); return; }
  // the last component may be missing: parent + name
  static char tmp[8192]; strncpy(tmp, path, sizeof tmp - 1);
  size_t n = strlen(tmp);
  if (n == 0) { fprintf(out, "!empty"); return; }
  if (tmp[n - 1] == '/') { fprintf(out, "!e2"); return; }
  char *sl = strrchr(tmp, '/'); const char *last, *dirp;
  if (sl) { last = sl + 1; if (sl == tmp) dirp = "/"; else { *sl = 0; dirp = tmp; } } else { last = tmp; dirp = "."; }
  if (!strcmp(last, ".") || !strcmp(last, "..")) { fprintf(out, "!e2"); return; }
  static char lastc[4096]; strncpy(lastc, last, sizeof lastc - 1);
  int pfd = open_again(dfd, dirp, O_PATH | O_DIRECTORY);
  if (pfd < 0) { fprintf(out, "!e%d", errno); return; }
  struct stat st;
  if (fstatat(pfd, lastc, &st, AT_SYMLINK_NOFOLLOW) == 0) { close(pfd); fprintf(out, "!dangling"); return; }
  snprintf(link, sizeof link, "/proc/self/fd/%d", pfd);
  ssize_t l = readlink(link, res, sizeof res - 1); close(pfd);
  if (l < 0) { fprintf(out, "!readlink"); return; }
  res[l] = 0;
  put_esc(out, res); if (!(l == 1 && res[0] == '/')) fputc('/', out); put_esc(out, lastc);
}
// "@k@" in a pathname stands for the number of the k-th directory descriptor of this program
static const char *po_subst(const char *t) {
  static char bufs[4][8200]; static int nb; char *o = bufs[nb++ & 3]; size_t n = 0;
  for (const char *q = t; *q && n < 8100; ) {
    if (q[0] == '@' && q[1] >= '0' && q[1] <= '9' && q[2] == '@') { n += snprintf(o + n, 16, "%d", po_slots[(q[1] - '0') & 15]); q += 3; }
    else o[n++] = *q++;
  }
  o[n] = 0; return o;
}

int main(int argc, char **argv) {
  if (argc < 3) return 98;
  FILE *in = fopen(argv[1], "r"), *out = fopen(argv[2], "w");
  if (!in || !out) return 97;
  fprintf(out, "pid %d\n", (int)getpid());
  static char line[32768]; static char strs[8][8192]; static unsigned long how[4];
  while (fgets(line, sizeof line, in)) {
    char *tok[16]; int nt = 0; line[strcspn(line, "\n")] = 0;
    for (char *q = strtok(line, " "); q && nt < 16; q = strtok(NULL, " ")) tok[nt++] = q;
    if (nt == 0) continue;
    if (!strcmp(tok[0], "chdir")) { if (nt < 2 || chdir(unesc(tok[1])) != 0) return 96; }
    else if (!strcmp(tok[0], "opendir")) { if (nt < 3) return 95; po_slots[atoi(tok[1]) & 15] = open(unesc(tok[2]), O_RDONLY | O_DIRECTORY); if (po_slots[atoi(tok[1]) & 15] < 0) return 95; }
    else if (!strcmp(tok[0], "fchdir")) { if (fchdir(po_slots[atoi(tok[1]) & 15]) != 0) return 94; }
    else if (!strcmp(tok[0], "op")) {
      // op ID NR a0..a5 ; each: p:STRING (pointer; "-" is the empty string) | d:DSPEC | n:NUMBER | h:FLAGS (pointer to an open_how) | x (unmapped pointer)
      unsigned long a[6] = {0, 0, 0, 0, 0, 0}; int ns = 0; static char mk[64];
      for (int i = 0; i < 6 && 3 + i < nt; i++) {
        const char *t = tok[3 + i];
        if (t[0] == 'p' || t[0] == 'q' || t[0] == 'w') {
          // the string itself: "-" is the empty string, everything else is unescaped after the descriptor numbers are filled in
          static char tb[3][8300]; static int tn; char *v = tb[tn++ % 3];
          if (!strcmp(t + 2, "-")) v[0] = 0; else { strncpy(v, po_subst(t + 2), 8200); unesc(v); }
          size_t L = strlen(v);
          if (t[0] == 'p') { strncpy(strs[ns], v, sizeof strs[0] - 1); a[i] = (unsigned long)strs[ns++]; }
          else if (t[0] == 'q') {
            // the same, with the string lying across a page boundary (half of it on either side)
            static char *pg[8]; if (!pg[ns]) pg[ns] = mmap(NULL, 4 * 4096, PROT_READ | PROT_WRITE, MAP_PRIVATE | MAP_ANONYMOUS, -1, 0);
            char *at = pg[ns] + 2 * 4096 - (L / 2 ? L / 2 : 1);
            memcpy(at, v, L + 1); a[i] = (unsigned long)at; ns++;
          } else {
            // the same, in a page that is mapped PROT_WRITE only
            static char *pw[8]; if (!pw[ns]) pw[ns] = mmap(NULL, 3 * 4096, PROT_READ | PROT_WRITE, MAP_PRIVATE | MAP_ANONYMOUS, -1, 0);
            mprotect(pw[ns], 3 * 4096, PROT_READ | PROT_WRITE);
            char *at = pw[ns] + 64;
            memcpy(at, v, L + 1); mprotect(pw[ns], 3 * 4096, PROT_WRITE); a[i] = (unsigned long)at; ns++;
          }
        }
        else if (t[0] == 'd') a[i] = po_dspec(t + 2);
        else if (t[0] == 'n') a[i] = strtoul(t + 2, NULL, 0);
        else if (t[0] == 'h') { how[0] = strtoul(t + 2, NULL, 0); how[1] = 0; how[2] = 0; a[i] = (unsigned long)how; }
        else if (t[0] == 'x') a[i] = 0x10;
      }
      snprintf(mk, sizeof mk, "/__m__/%s", tok[1]);
      syscall(SYS_access, mk, 0);
      long r = syscall(atol(tok[2]), a[0], a[1], a[2], a[3], a[4], a[5]);
      int e = errno;
      syscall(SYS_access, "/__m__/end", 0);
      fprintf(out, "op %s %ld %d\n", tok[1], r, r < 0 ? e : 0);
    } else if (!strcmp(tok[0], "t")) {
      // t ID DSPEC PATH : the kernel's resolution, following and not following the last component
      if (nt < 4) return 93;
      int dfd = (int)po_dspec(tok[2]);
      static char pb[8300];
      const char *pth = "";
      if (strcmp(tok[3], "-")) { strncpy(pb, po_subst(tok[3]), sizeof pb - 1); pth = unesc(pb); }
      fprintf(out, "t %s", tok[1]);
      po_truth(out, dfd, pth, 0); po_truth(out, dfd, pth, 1);
      fprintf(out, "\n");
    }
  }
  fclose(out);
  return 0;
}

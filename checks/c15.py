"""C15 — a sandboxed program cannot make the runner itself fail.
Tie: Context.GetString on the harness's own memory with crafted page protections and NUL placements vs
Tracer/Mem.v in Coq; ptraceHandle.handle with requests answering ESRCH (shared with C09); real traced runs
of a hostile program (every syscall traps).  Oracle: the run's verdict is never Runner Error."""
import os

from vlib import coq_list, coq_bool, coq_N

FINISH = dict(level="proof", rule=(
    "getstring: start offsets around page boundaries and at random, first NUL before / at / after the page boundary, at "
    "PATH_MAX-1 / PATH_MAX / none, each page of the region readable or not; hostile runs: unterminated and PATH_MAX-sized "
    "paths, strings crossing into unmapped pages, NULL / kernel / non-canonical / unmapped pointers, 64-bit garbage in dirfd, "
    "unknown / negative / x32 syscall numbers, unreadable and page-straddling open_how, bad execve, tasks created and killed "
    "by exit_group while they trap (repeated to hit the ESRCH windows).  Non-trivial: every case; distinct = distinct bodies."))

HDR = "From GS Require Import Tracer.Mem Tracer.EvalMem.\nOpen Scope N_scope.\n"
SCEN = ["unterminated", "exact4096", "unaligned_long", "cross_unmapped", "cross_ok", "null_ptr", "kernel_ptr", "noncanonical_ptr",
        "unmapped_page", "garbage_dirfd", "huge_dirfd", "unknown_syscall", "negative_syscall", "x32_syscall", "openat2_bad_how",
        "openat2_how_cross", "openat2_size_8", "openat2_size_0", "openat2_size_23", "openat2_size_neg", "openat2_size_huge", "openat2_size_4097", "execve_bad", "symlink_nest", "sysno_bit63", "sysno_upper_ones", "sysno_upper_garbage",
        "open_flags_3", "open_flags_ffffffff", "open_flags_deadbeef00000003", "open_flags_7fffffffffffffff", "open_flags_243", "open_flags_80003"]
RACES = ["threads_exit", "clone_exit", "fork_kill"]


def run(c):
    exe = c.build_harness("h_c15")
    c.build_probe("target")
    r = c.rng("getstring")
    dis = []
    gc = []
    P = 4096

    def add(pages, nuls, off):
        gc.append({"id": len(gc), "kind": "getstring", "pages": pages, "nuls": sorted(set(n for n in nuls if 0 <= n < 5 * P)), "off": off})
    allp = [True] * 4
    for off in (0, 1, 100, P - 1, P, P + 1, 2 * P - 10, 3 * P, 4 * P - 1):
        add(allp, [], off)                                   # no NUL within PATH_MAX (unless the guard page stops it)
        add(allp, [off + P - 1], off)                        # NUL at PATH_MAX-1
        add(allp, [off + P], off)                            # NUL at PATH_MAX: not within the buffer
        add(allp, [off], off)                                # empty string
        nb = (off // P + 1) * P                              # next page boundary
        for d in (-2, -1, 0, 1, 5):
            add(allp, [nb + d], off)
    n = 150 if c.quick() else 2000
    for _ in range(n):
        pages = [r.random() < 0.8 for _ in range(4)]
        off = r.choice([r.randrange(0, 4 * P), r.randrange(0, 4) * P + r.choice([0, 1, P - 1, P - 8, 7])])
        nuls = [off + r.choice([0, 1, 50, 4000, 4095, 4096, r.randrange(0, 5000)]) for _ in range(r.randint(0, 2))]
        add(pages, nuls, off)
    for z, nn in ((0, 1), (-1, 1), (-1, 0), (3, 10), (-1, 10), (9, 10), (-1, 4096), (4095, 4096)):
        gc.append({"id": len(gc), "kind": "clen", "n": nn, "zero": z})
    go = c.run_harness(exe, gc, timeout=300)
    items, idx = [], []
    for x, o in zip(gc, go):
        if x["kind"] == "clen":
            c.count(("clen", x["n"], x["zero"]), klass="clen")
            want = x["zero"] if 0 <= x["zero"] < x["n"] else x["n"]
            if o["clen"] != want:
                c.finding_or_violation({"kind": "clen", "n": x["n"], "first_nul": x["zero"], "returned": o["clen"]}, {"case": x})
            continue
        c.count(("gs", tuple(x["pages"]), tuple(x["nuls"]), x["off"]), klass="getstring:" + ("panic" if "panic" in o else "ok"))
        items.append("(%s, %s, %s, %s)" % (coq_list([coq_bool(p) for p in x["pages"]]), coq_list([coq_N(v) for v in x["nuls"]]), coq_N(x["off"]),
                                         "None" if "panic" in o else "(Some (%s, %s))" % (coq_N(o["len"]), coq_N(o["sum"]))))
        idx.append(x["id"])
        if "panic" in o:
            c.finding_or_violation({"kind": "getstring-panics", "panic": o["panic"][:60]}, {"case": x})
    import concurrent.futures as cf
    nsh = 8
    sh = [list(range(k, len(items), nsh)) for k in range(nsh)]

    def shard(k):
        body = HDR + "Definition cs := %s.\nDefinition M := Eval vm_compute in failing getstring_ok cs.\nPrint M.\n" % coq_list([items[i] for i in sh[k]])
        return [sh[k][j] for j in c.parse_nums(c.parse_printed(c.coq_eval("gs%d" % k, body, timeout=1200), "M").replace("%N", ""))]
    with cf.ThreadPoolExecutor(max_workers=nsh) as ex:
        for res in ex.map(shard, range(nsh)):
            for i in res:
                dis.append({"relation": "getstring_ok (Context.GetString vs get_string)", "case": gc[idx[i]], "observed": go[idx[i]]})
    c.sample({"case": gc[1], "observed": go[1]})

    # ---- hostile traced runs
    hc = [{"id": i, "kind": "hostile", "scenario": s, "reps": 2 if c.quick() else 10} for i, s in enumerate(SCEN)]
    for s in RACES:
        hc.append({"id": len(hc), "kind": "hostile", "scenario": s, "reps": 60 if c.quick() else 600})
    henv = dict(os.environ, VERIF_SCRATCH=c.tmpdir("wd"))
    try:
        ho = c.run_harness(exe, hc, timeout=1800, env=henv)
    except RuntimeError as e0:
        # the process that runs the tracer died: find the program on whose account (one process per scenario)
        ho = []
        for x in hc:
            try:
                ho.append(c.run_harness(exe, [x], timeout=600, env=henv)[0])
            except RuntimeError as e1:
                c.finding_or_violation({"kind": "runner-process-dies-on-the-programs-account", "scenario": x["scenario"]},
                                       {"case": x, "end_of_the_runner_process": str(e1)[-1500:]}, klass="rdie:" + x["scenario"])
                ho.append({"statuses": {}, "runner_error": "", "slowest_ms": 0})
        if not c.violations:
            raise e0
    for x, o in zip(hc, ho):
        c.count(("hostile", x["scenario"]), klass="hostile")
        c.evaluations += x["reps"] - 1
        st = {int(k): v for k, v in o["statuses"].items()}
        if st.get(8):
            c.finding_or_violation({"kind": "runner-error-on-the-programs-account", "scenario": x["scenario"], "error": o["runner_error"][:80]},
                                   {"case": x, "statuses": o["statuses"]}, klass="rerr:" + x["scenario"])
        # the handler allows everything: a Disallowed Syscall verdict is only legitimate for syscall numbers the table does not know
        if st.get(5) and x["scenario"] not in ("unknown_syscall", "negative_syscall", "x32_syscall", "sysno_bit63", "sysno_upper_ones", "sysno_upper_garbage"):
            c.finding_or_violation({"kind": "false-policy-violation", "scenario": x["scenario"]}, {"case": x, "statuses": o["statuses"]},
                                   klass="disallowed:" + x["scenario"])
        # none of these programs computes or sleeps: a slow run or a Time Limit verdict means the tracer stopped making progress
        if o["slowest_ms"] > 4000 or st.get(2):
            c.finding_or_violation({"kind": "tracer-stops-making-progress", "scenario": x["scenario"], "slowest_ms": o["slowest_ms"]},
                                   {"case": x, "statuses": o["statuses"]}, klass="slow:" + x["scenario"])
        if st.get(0):
            c.finding_or_violation({"kind": "invalid-status", "scenario": x["scenario"]}, {"statuses": o["statuses"]})
    c.sample({"case": hc[-2], "observed": ho[-2]})
    c.cov["hostile_scenarios"] = len(hc)
    c.cov["correspondence_disagreements"] = len(dis)
    if dis:
        c.cov["disagreement_samples"] = dis[:5]
        if not c.violations:
            c.violation({"kind": "correspondence-broken", "theorems_no_longer_about_the_code": c.theorems, "disagreements": dis[:10]}, no_input=True)

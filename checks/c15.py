"""C15 — a sandboxed program cannot make the runner itself fail.
Tie: Context.GetString on the harness's own memory with crafted page protections and NUL placements vs
Tracer/Mem.v in Coq; ptraceHandle.handle with requests answering ESRCH (shared with C09); real traced runs
of a hostile program (every syscall traps).  Oracle: the run's verdict is never Runner Error."""
import os

from vlib import coq_list, coq_bool, coq_N

FINISH = dict(level="proof", rule=(
    "getstring: start offsets around page boundaries and at random, first NUL before / at / after the page boundary, at "
    "PATH_MAX-1 / PATH_MAX / none, each page of the region readable or not; hostile runs: unterminated and PATH_MAX-sized "
    "paths, strings crossing into unmapped pages, NULL / kernel / non-canonical / unmapped pointers, 64-bit garbage in dirfd, "
    "unknown / negative / x32 syscall numbers, unreadable and page-straddling open_how, bad execve, tasks created and killed "
    "by exit_group while they trap (repeated to hit the ESRCH windows); thread groups ended at a random moment (exit_group of a sibling / of the "
    "leader, SIGKILL from a child / a sibling, execve of a sibling, cancellation by the owner) while 1..4 tasks are inside traced path syscalls "
    "(cwd-relative, dirfd-relative, empty, absolute; open / stat / access / readlink / unlink / rename / chmod / mkdir / execve families; cwd = work "
    "directory, sub directory, \"/\", a long nested one; every syscall trapping or only the path syscalls): the verdict is the one of the program's "
    "own end.  Non-trivial: every case; distinct = distinct bodies."))

HDR = "From GS Require Import Tracer.Mem Tracer.EvalMem.\nOpen Scope N_scope.\n"
SCEN = ["unterminated", "exact4096", "unaligned_long", "cross_unmapped", "cross_ok", "null_ptr", "kernel_ptr", "noncanonical_ptr",
        "unmapped_page", "garbage_dirfd", "huge_dirfd", "unknown_syscall", "negative_syscall", "x32_syscall", "openat2_bad_how",
        "openat2_how_cross", "openat2_size_8", "openat2_size_0", "openat2_size_23", "openat2_size_neg", "openat2_size_huge", "openat2_size_4097", "execve_bad", "symlink_nest", "sysno_bit63", "sysno_upper_ones", "sysno_upper_garbage",
        "open_flags_3", "open_flags_ffffffff", "open_flags_deadbeef00000003", "open_flags_7fffffffffffffff", "open_flags_243", "open_flags_80003"]
RACES = ["threads_exit", "clone_exit", "fork_kill"]

# ---- tasks that die while the tracer is handling one of their traced path syscalls (the ESRCH windows of the path handling):
# who ends the thread group x which path syscall the dying tasks are in x the cwd x which syscalls trap x how many tasks x when
DY_KILLERS = ["sibling_exit_group", "leader_exit_group", "sigkill_child", "sigkill_sibling", "exec_sibling", "none"]
DY_FORMS = ["open_rel", "openat_cwd_rel", "openat_cwd_dotdot", "openat_cwd_dot", "openat_cwd_empty", "openat_cwd_sx64", "openat_cwd_zx64",
            "openat_dirfd_rel", "openat_badfd_rel", "openat2_cwd_rel", "open_symlink_rel", "open_create_rel", "open_abs", "stat_rel", "lstat_rel",
            "fstatat_cwd_rel", "access_rel", "faccessat_cwd_rel", "readlink_rel", "readlinkat_cwd_rel", "unlink_rel", "unlinkat_cwd_rel",
            "rename_rel", "renameat_cwd_rel", "chmod_rel", "mkdirat_cwd_rel", "execve_rel", "execveat_cwd_rel"]
DY_CREATES = ("open_create_rel", "mkdirat_cwd_rel")          # never run with the host's "/" as cwd
DY_CWDS = ["wd", "sub", "root", "deep"]
DY_FILTERS = ["all", "paths"]
# the verdict that describes how the program ends: exit_group(0) / exit(0) of the image a sibling switched to -> Normal; SIGKILL (sent
# by the program to itself, or by the owner of a cancelled run) -> Signalled, which this runner reports as Time Limit Exceeded
DY_WANT = {"sibling_exit_group": [1], "leader_exit_group": [1], "exec_sibling": [1], "sigkill_child": [2, 6], "sigkill_sibling": [2, 6], "none": [2, 6]}
STATUS_NAMES = {0: "Invalid", 1: "Normal", 2: "Time Limit Exceeded", 3: "Memory Limit Exceeded", 4: "Output Limit Exceeded",
                5: "Disallowed Syscall", 6: "Signalled", 7: "Nonzero Exit Status", 8: "Runner Error"}


def dying_cases(c, first_id):
    r = c.rng("dying")
    out = []

    def add(killer, form, cwd, filt, workers, delay, reps):
        if cwd == "root" and form in DY_CREATES:
            cwd = "sub"
        out.append({"id": first_id + len(out), "kind": "dying", "killer": killer, "form": form, "cwd": cwd, "filter": filt, "workers": workers,
                    "maxdelay_us": delay, "reps": reps, "want_status": DY_WANT[killer]})
    if c.quick():
        # every form once, the other dimensions spread over the forms (each killer, filter and cwd several times)
        forms = list(DY_FORMS)
        r.shuffle(forms)
        for i, f in enumerate(forms):
            k = DY_KILLERS[i % len(DY_KILLERS)]
            add(k, f, DY_CWDS[(i // 2) % len(DY_CWDS)], DY_FILTERS[(i + i // len(DY_KILLERS)) % 2], r.choice([1, 2, 3]),
                r.choice([0, 30, 300, 3000]) if k != "none" else r.choice([300, 3000]), 5)
    else:
        for f in DY_FORMS:
            for k in DY_KILLERS:
                for filt in DY_FILTERS:
                    add(k, f, r.choice(DY_CWDS), filt, r.choice([1, 2, 3, 4]), r.choice([0, 10, 30, 100, 300, 3000]) if k != "none" else r.choice([100, 300, 3000, 20000]), 6)
    return out


def run(c):
    exe = c.build_harness("h_c15")
    c.build_probe("target")
    c.build_probe("dying")
    r = c.rng("getstring")
    dis = []
    gc = []
    P = 4096

    def add(pages, nuls, off):
        gc.append({"id": len(gc), "kind": "getstring", "pages": pages, "nuls": sorted(set(n for n in nuls if 0 <= n < 5 * P)), "off": off})
    allp = [True] * 4
    for off in (0, 1, 100, P - 1, P, P + 1, 2 * P - 10, 3 * P, 4 * P - 1):
        add(allp, [], off)                                   # no NUL within PATH_MAX (unless the guard page stops it)
        add(allp, [off + P - 1], off)                        # NUL at PATH_MAX-1
        add(allp, [off + P], off)                            # NUL at PATH_MAX: not within the buffer
        add(allp, [off], off)                                # empty string
        nb = (off // P + 1) * P                              # next page boundary
        for d in (-2, -1, 0, 1, 5):
            add(allp, [nb + d], off)
    n = 150 if c.quick() else 2000
    for _ in range(n):
        pages = [r.random() < 0.8 for _ in range(4)]
        off = r.choice([r.randrange(0, 4 * P), r.randrange(0, 4) * P + r.choice([0, 1, P - 1, P - 8, 7])])
        nuls = [off + r.choice([0, 1, 50, 4000, 4095, 4096, r.randrange(0, 5000)]) for _ in range(r.randint(0, 2))]
        add(pages, nuls, off)
    for z, nn in ((0, 1), (-1, 1), (-1, 0), (3, 10), (-1, 10), (9, 10), (-1, 4096), (4095, 4096)):
        gc.append({"id": len(gc), "kind": "clen", "n": nn, "zero": z})
    go = c.run_harness(exe, gc, timeout=300)
    items, idx = [], []
    for x, o in zip(gc, go):
        if x["kind"] == "clen":
            c.count(("clen", x["n"], x["zero"]), klass="clen")
            want = x["zero"] if 0 <= x["zero"] < x["n"] else x["n"]
            if o["clen"] != want:
                c.finding_or_violation({"kind": "clen", "n": x["n"], "first_nul": x["zero"], "returned": o["clen"]}, {"case": x})
            continue
        c.count(("gs", tuple(x["pages"]), tuple(x["nuls"]), x["off"]), klass="getstring:" + ("panic" if "panic" in o else "ok"))
        items.append("(%s, %s, %s, %s)" % (coq_list([coq_bool(p) for p in x["pages"]]), coq_list([coq_N(v) for v in x["nuls"]]), coq_N(x["off"]),
                                         "None" if "panic" in o else "(Some (%s, %s))" % (coq_N(o["len"]), coq_N(o["sum"]))))
        idx.append(x["id"])
        if "panic" in o:
            c.finding_or_violation({"kind": "getstring-panics", "panic": o["panic"][:60]}, {"case": x})
    import concurrent.futures as cf
    nsh = 8
    sh = [list(range(k, len(items), nsh)) for k in range(nsh)]

    def shard(k):
        body = HDR + "Definition cs := %s.\nDefinition M := Eval vm_compute in failing getstring_ok cs.\nPrint M.\n" % coq_list([items[i] for i in sh[k]])
        return [sh[k][j] for j in c.parse_nums(c.parse_printed(c.coq_eval("gs%d" % k, body, timeout=1200), "M").replace("%N", ""))]
    with cf.ThreadPoolExecutor(max_workers=nsh) as ex:
        for res in ex.map(shard, range(nsh)):
            for i in res:
                dis.append({"relation": "getstring_ok (Context.GetString vs get_string)", "case": gc[idx[i]], "observed": go[idx[i]]})
    c.sample({"case": gc[1], "observed": go[1]})

    # ---- hostile traced runs
    hc = [{"id": i, "kind": "hostile", "scenario": s, "reps": 2 if c.quick() else 10} for i, s in enumerate(SCEN)]
    for s in RACES:
        hc.append({"id": len(hc), "kind": "hostile", "scenario": s, "reps": 60 if c.quick() else 600})
    n_hostile = len(hc)
    hc += dying_cases(c, len(hc))
    henv = dict(os.environ, VERIF_SCRATCH=c.tmpdir("wd"))
    try:
        ho = c.run_harness(exe, hc, timeout=1800, env=henv)
    except RuntimeError as e0:
        # the process that runs the tracer died: find the program on whose account (one process per scenario)
        ho = []
        for x in hc:
            try:
                ho.append(c.run_harness(exe, [x], timeout=600, env=henv)[0])
            except RuntimeError as e1:
                name = x.get("scenario") or "dying:%s/%s/%s/%s" % (x["killer"], x["form"], x["cwd"], x["filter"])
                c.finding_or_violation({"kind": "runner-process-dies-on-the-programs-account", "scenario": name},
                                       {"case": x, "end_of_the_runner_process": str(e1)[-1500:]}, klass="rdie:" + name)
                ho.append({"statuses": {}, "runner_error": "", "slowest_ms": 0})
        if not c.violations:
            raise e0
    for x, o in zip(hc[n_hostile:], ho[n_hostile:]):
        what = "%s/%s/%s/%s" % (x["killer"], x["form"], x["cwd"], x["filter"])
        c.count(("dying", x["killer"], x["form"], x["cwd"], x["filter"], x["workers"], x["maxdelay_us"]), klass="dying")
        st = {int(k): v for k, v in o.get("statuses", {}).items()}
        c.evaluations += max(0, sum(st.values()) - 1)
        bad = o.get("unexpected") or []
        rep = {"case": x, "program": "build/bin/probe_dying %s %s %s %d %d  (seccomp: %s; started in a scratch directory, the program moves to the cwd '%s' itself%s)" % (
            x["killer"], x["form"], x["cwd"], x["workers"], x["maxdelay_us"], "every syscall traps" if x["filter"] == "all" else "only the path syscalls trap", x["cwd"],
            "; the owner cancels the run 0..%d us after the workers started" % x["maxdelay_us"] if x["killer"] == "none" else ""),
            "expected_verdict": [STATUS_NAMES[w] for w in x["want_status"]], "observed_verdicts": {STATUS_NAMES.get(k, str(k)): v for k, v in st.items()},
            "unexpected_runs": bad}
        if st.get(8):
            err = next((b["error"] for b in bad if b["status"] == 8), "")
            c.finding_or_violation({"kind": "runner-error-while-the-program-dies-in-a-path-syscall", "killer": x["killer"], "form": x["form"], "error": err[:80]},
                                   rep, klass="dy-rerr:" + x["killer"])
        if st.get(5):
            c.finding_or_violation({"kind": "false-policy-violation-while-the-program-dies", "killer": x["killer"], "form": x["form"]}, rep, klass="dy-disallowed:" + x["killer"])
        if o.get("slowest_ms", 0) > 8000 or (st.get(2) and 2 not in x["want_status"]):
            c.finding_or_violation({"kind": "tracer-stops-making-progress-while-the-program-dies", "killer": x["killer"], "form": x["form"], "slowest_ms": o.get("slowest_ms", 0)},
                                   rep, klass="dy-slow:" + x["killer"])
        other = [k for k in st if k not in x["want_status"] and k not in (8, 5, 2)]
        if other:
            c.finding_or_violation({"kind": "verdict-is-not-about-the-programs-end", "killer": x["killer"], "form": x["form"], "verdicts": sorted(other)}, rep,
                                   klass="dy-verdict:" + x["killer"])
    c.cov["dying_scenarios"] = len(hc) - n_hostile
    del hc[n_hostile:], ho[n_hostile:]
    for x, o in zip(hc, ho):
        c.count(("hostile", x["scenario"]), klass="hostile")
        c.evaluations += x["reps"] - 1
        st = {int(k): v for k, v in o["statuses"].items()}
        if st.get(8):
            c.finding_or_violation({"kind": "runner-error-on-the-programs-account", "scenario": x["scenario"], "error": o["runner_error"][:80]},
                                   {"case": x, "statuses": o["statuses"]}, klass="rerr:" + x["scenario"])
        # the handler allows everything: a Disallowed Syscall verdict is only legitimate for syscall numbers the table does not know
        if st.get(5) and x["scenario"] not in ("unknown_syscall", "negative_syscall", "x32_syscall", "sysno_bit63", "sysno_upper_ones", "sysno_upper_garbage"):
            c.finding_or_violation({"kind": "false-policy-violation", "scenario": x["scenario"]}, {"case": x, "statuses": o["statuses"]},
                                   klass="disallowed:" + x["scenario"])
        # none of these programs computes or sleeps: a slow run or a Time Limit verdict means the tracer stopped making progress
        # (each takes 0.1 to 0.3 s on a quiet machine and was seen at 4.2 s with 45 runnable processes; every run has a 10 s deadline, so a
        # tracer that stops shows as a Time Limit verdict in any case)
        if o["slowest_ms"] > 8000 or st.get(2):
            c.finding_or_violation({"kind": "tracer-stops-making-progress", "scenario": x["scenario"], "slowest_ms": o["slowest_ms"]},
                                   {"case": x, "statuses": o["statuses"]}, klass="slow:" + x["scenario"])
        if st.get(0):
            c.finding_or_violation({"kind": "invalid-status", "scenario": x["scenario"]}, {"statuses": o["statuses"]})
    c.sample({"case": hc[-2], "observed": ho[-2]})
    c.cov["hostile_scenarios"] = len(hc)
    c.cov["correspondence_disagreements"] = len(dis)
    if dis:
        c.cov["disagreement_samples"] = dis[:5]
        if not c.violations:
            c.violation({"kind": "correspondence-broken", "theorems_no_longer_about_the_code": c.theorems, "disagreements": dis[:10]}, no_input=True)

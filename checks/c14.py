"""C14 — Open/Delete/Symlink are index-aligned and safe against planted objects.
Tie: random batches against file-system states planted by a program inside a real container;
per-index result classes and descriptor identities vs Container/Batch.v evaluated in Coq."""
import json
import os

from vlib import coq_list, coq_bool

FINISH = dict(level="proof", rule=(
    "scenarios: a program plants regular files, directories, FIFOs, sockets, symlinks (to a secret file, to a directory, "
    "dangling) and parent directories that are absent / present / a regular file; then one Open batch of 0..64 items "
    "(5 flag words, MkdirAll on/off, repeated paths), a re-open of every returned file (identity), a kinds probe, a "
    "Symlink batch and Deletes.  Non-trivial: a batch with at least one failing and one succeeding item; distinct = "
    "distinct (state, batch) pairs."))

HDR = "From GS Require Import Container.Batch Container.BatchProofs Container.EvalBatch.\n"
O_CREAT, O_EXCL, O_TRUNC = 0o100, 0o200, 0o1000
# RDONLY, WRONLY, WRONLY|CREAT|TRUNC, RDWR|CREAT, WRONLY|CREAT|EXCL, and the same with O_NOFOLLOW / O_NONBLOCK (which change nothing about what may be opened)
FLAGS = [0, 1, 0o1101, 0o102, 0o301, 0o400000, 0o400001, 0o404000, 0o400102, 0o4000]
KINDS = ["absent", "reg", "dir", "fifo", "sym_secret", "sym_dangling", "sym_dir", "sock"]


def plant_args(path, kind):
    if kind == "reg":
        return ["reg", path, "old"]
    if kind == "dir":
        return ["dir", path, "-"]
    if kind == "fifo":
        return ["fifo", path, "-"]
    if kind == "sock":
        return ["sock", path, "-"]
    if kind == "sym_secret":
        return ["sym", path, "/w/secret"]
    if kind == "sym_dangling":
        return ["sym", path, "/w/nowhere"]
    if kind == "sym_dir":
        return ["sym", path, "/w"]
    return []


def parent(p):
    return p.rsplit("/", 1)[0]


def sim_open(state, item):
    """sequential semantics of handleOpen on the planted state; returns (item_env, code)"""
    path, flag, mk = item["path"], item["flag"], item.get("mkdirall", False)
    par = parent(path)
    pk = "dir" if par == "/w" else state.get(par, "absent")
    mkdir_ok = True
    if mk:
        if pk == "absent":
            state[par] = "dir"
            pk = "dir"
        elif pk != "dir":
            mkdir_ok = False
    if mk and not mkdir_ok:
        return (True, False, 0, False), 1
    if pk == "absent":
        ls = 0          # ENOENT counts as absent
    elif pk != "dir":
        ls = 3          # ENOTDIR: a genuine lstat error
    else:
        k = state.get(path, "absent")
        ls = 0 if k == "absent" else 1 if k == "reg" else 2
    if ls == 3:
        return (mk, True, 3, False), 2
    if ls == 2:
        return (mk, True, 2, False), 3
    if ls == 0:
        ok = pk == "dir" and bool(flag & O_CREAT)
        if ok:
            state[path] = "reg"
    else:
        ok = not (flag & O_CREAT and flag & O_EXCL)
    return (mk, True, ls, ok), (0 if ok else 4)


def err_class(s):
    if s.startswith("mkdir:"):
        return 1
    if "is not a regular file" in s:
        return 3
    if s.startswith("lstat "):
        return 2
    if s.startswith("open "):
        return 4
    return 9


def run(c):
    exe = c.build_harness("h_env")
    c.build_probe("target")
    scratch = c.tmpdir("scratch")
    env = dict(os.environ, VERIF_SCRATCH=scratch)
    r = c.rng("scenarios")
    T = "/vb/probe_target"
    nsc = 60 if c.quick() else 600
    cases, metas = [], []
    for sid in range(nsc):
        state = {"/w/secret": "reg"}
        plants = ["reg", "/w/secret", "TOP"]
        paths = []
        for k in range(r.randint(3, 10)):
            p = "/w/p%d" % k
            kind = r.choice(KINDS)
            paths.append(p)
            if kind != "absent":
                state[p] = kind
                plants += plant_args(p, kind)
        for k in range(r.randint(0, 3)):
            d = "/w/s%d" % k
            dk = r.choice(["absent", "dir", "reg"])
            if dk != "absent":
                state[d] = dk
                plants += plant_args(d, dk)
            paths.append(d + "/x")
            if dk == "dir" and r.random() < 0.5:
                kk = r.choice(["reg", "fifo", "sym_secret"])
                state[d + "/x"] = kk
                plants += plant_args(d + "/x", kk)
        before = dict(state)
        n = r.choice([0, 1, 2, 3, 5, 8, 13, 21, 40, 64]) if r.random() < 0.8 else r.randint(0, 64)
        items = []
        for _ in range(n):
            p = r.choice(paths)
            items.append({"path": p, "flag": r.choice(FLAGS), "perm": 0o644, "mkdirall": r.random() < 0.4})
        envs, codes = [], []
        st = dict(state)
        for it in items:
            e, code = sim_open(st, it)
            envs.append(e)
            codes.append(code)
        reopen = [{"path": it["path"], "flag": 0, "perm": 0} for it, cd in zip(items, codes) if cd == 0]
        links = []
        for k in range(r.randint(0, 6)):
            lp = r.choice(paths + ["/w/newlink%d" % k])
            links.append({"link": lp, "target": r.choice(["/w/secret", "x", "/etc/passwd"])})
        dels = [r.choice(paths + ["/w/none"]) for _ in range(r.randint(0, 3))]
        ops = [{"op": "reset"}, {"op": "exec", "args": [T, "plant"] + plants}]
        if items:
            ops.append({"op": "open", "items": items})
        else:
            ops.append({"op": "open", "items": []})
        if reopen:
            ops.append({"op": "open", "items": reopen})
        allp = sorted(set(paths + [parent(p) for p in paths if parent(p) != "/w"] + ["/w/secret", "/w/nowhere"]))
        ops.append({"op": "exec", "args": [T, "kinds"] + allp})
        if links:
            ops.append({"op": "symlink", "links": links})
        for d in dels:
            ops.append({"op": "delete", "path": d})
        ops.append({"op": "exec", "args": [T, "kinds"] + allp + [l["link"] for l in links]})
        ops.append({"op": "ping"})
        cases.append({"id": sid, "ops": ops})
        metas.append({"before": before, "after_open": st, "items": items, "envs": envs, "codes": codes, "reopen": reopen,
                      "allp": allp, "links": links, "dels": dels})
    obs = c.run_harness(exe, cases, env=env, timeout=900)
    coq_items, dis = [], []
    for case, meta, o in zip(cases, metas, obs):
        if "harness_err" in o:
            raise RuntimeError(o["harness_err"])
        ob = o["obs"]
        if o.get("skipped_after_hangs"):
            continue
        if o.get("hang"):
            hung = ob[-1]["op"] if ob else "?"
            c.finding_or_violation({"kind": "open-batch", "what": "a call never returned (the environment is blocked from then on)", "call": hung,
                                    "planted_kinds": sorted(set(meta["before"].values()))},
                                   {"history": case["ops"][:len(ob)], "state": meta["before"], "items": meta["items"]}, klass="hang:" + hung)
            continue
        it = iter(ob)
        o_reset, o_plant, o_open = next(it), next(it), next(it)
        if o_plant.get("exit") != 0 or o_plant.get("status") != 1:
            raise RuntimeError("planting failed: %r" % o_plant)
        items, codes = meta["items"], meta["codes"]
        nt = len(set(codes)) > 1
        c.count(json.dumps([meta["before"], items], sort_keys=True), nontrivial=nt,
                klass="batch:%s" % ("empty" if not items else "mixed" if nt else "uniform"))
        canon = lambda what, **kw: dict({"kind": "open-batch", "what": what}, **kw)
        if not items:
            if not o_open["err"]:
                c.finding_or_violation(canon("empty batch not answered with an error"), {"observed": o_open})
            o_re = None
        else:
            if o_open["err"]:
                c.finding_or_violation(canon("batch failed as a whole: " + o_open["err"]), {"case": items, "state": meta["before"]})
                continue
            res = o_open["results"]
            got = [0 if "err" not in x else err_class(x["err"]) for x in res]
            coq_items.append("(%s, %s)" % (coq_list(["mkenv %s %s %d %s" % (coq_bool(a), coq_bool(b), l, coq_bool(d)) for a, b, l, d in meta["envs"]]),
                                         coq_list([str(g) for g in got])))
            o_re = next(it) if meta["reopen"] else None
            # ---- property oracle on the implementation's output
            if len(res) != len(items):
                c.finding_or_violation(canon("result count differs from request count"), {"case": items, "observed": res})
            st = dict(meta["before"])
            reidx = 0
            for k, (itm, x) in enumerate(zip(items, res)):
                kind_before = st.get(itm["path"], "absent")
                _, code = sim_open(st, itm)
                if "err" not in x:
                    if kind_before not in ("absent", "reg"):
                        c.finding_or_violation(canon("descriptor handed out for a planted object", planted=kind_before, index=k),
                                               {"item": itm, "state": meta["before"], "result": x})
                    if x["accmode"] != itm["flag"] & 3 or not x["cloexec"] or x["name"] != itm["path"] or (x["mode"] & 0o170000) != 0o100000:
                        c.finding_or_violation(canon("returned file has wrong mode/flags/name", index=k), {"item": itm, "result": x})
                if code == 0 and "err" not in x and o_re and not o_re.get("err"):
                    y = o_re["results"][reidx] if reidx < len(o_re["results"]) else {"err": "missing"}
                    if "err" in y or (y["dev"], y["ino"]) != (x["dev"], x["ino"]):
                        c.finding_or_violation(canon("k-th descriptor is not the file at the k-th path", index=k),
                                               {"item": itm, "first": x, "reopened": y, "batch": items})
                if code == 0:
                    reidx += 1
                if (code == 0) != ("err" not in x):
                    c.finding_or_violation(canon("item outcome differs from what the planted state implies", index=k,
                                                 expected_class=code, planted=kind_before),
                                           {"item": itm, "result": x, "state": meta["before"], "batch": items})
            if o_open["ms"] > 3000:
                c.finding_or_violation(canon("Open blocked (%d ms)" % o_open["ms"]), {"case": items})
        o_k1 = next(it)
        kinds1 = dict(zip(meta["allp"], json.loads(o_k1["stdout"])))
        if not kinds1["/w/secret"].startswith("reg:3") or kinds1["/w/nowhere"] != "absent":
            c.finding_or_violation({"kind": "planted-symlink-followed", "secret": kinds1["/w/secret"], "nowhere": kinds1["/w/nowhere"]},
                                   {"batch": items, "state": meta["before"]})
        # symlink batch
        st = {p: k.split(":")[0] for p, k in kinds1.items()}
        if meta["links"]:
            o_l = next(it)
            if o_l["err"] or len(o_l["results"]) != len(meta["links"]):
                c.finding_or_violation({"kind": "symlink-batch", "what": "failed / wrong length"}, {"observed": o_l})
            else:
                for k, (l, e) in enumerate(zip(meta["links"], o_l["results"])):
                    par = parent(l["link"])
                    can = (par == "/w" or st.get(par) == "dir") and st.get(l["link"], "absent") == "absent"
                    if can:
                        st[l["link"]] = "sym"
                    if can != (e is None):
                        c.finding_or_violation({"kind": "symlink-batch", "what": "k-th error does not belong to the k-th link", "index": k},
                                               {"links": meta["links"], "results": o_l["results"], "state": kinds1})
        for d in meta["dels"]:
            o_d = next(it)
            k = st.get(d, "absent")
            par = parent(d)
            can = k not in ("absent",) and (par == "/w" or st.get(par) == "dir")
            if k == "dir":
                can = not any(p.startswith(d + "/") and st.get(p, "absent") != "absent" for p in st)
            if can:
                st[d] = "absent"
            if can != (o_d["err"] is None):
                c.finding_or_violation({"kind": "delete", "what": "outcome differs from state", "path": d, "kind_at_path": k}, {"observed": o_d})
        o_k2 = next(it)
        o_ping = next(it)
        if o_ping["err"]:
            c.finding_or_violation({"kind": "environment-unusable-after-batch", "err": o_ping["err"]}, {"ops": case["ops"]})
        kinds2 = dict(zip(meta["allp"] + [l["link"] for l in meta["links"]], json.loads(o_k2["stdout"])))
        for p, k in kinds2.items():
            if st.get(p, "absent") != k.split(":")[0]:
                c.finding_or_violation({"kind": "state-after-history", "path": p, "expected": st.get(p, "absent"), "observed": k},
                                       {"ops": case["ops"]})
    # ---- long histories of large batches (descriptor lifetime in init across garbage collections)
    rounds = 500 if c.quick() else 3000
    so = c.run_harness(exe, [{"id": 0, "ops": [{"op": "reset"}, {"op": "openstress", "rounds": rounds, "n": 250}, {"op": "reset"}, {"op": "ping"}]}],
                       env=env, timeout=1800)[0]["obs"]
    if so[1].get("hang"):
        c.finding_or_violation({"kind": "open-batch-history", "what": "a batch never returned"}, {"history": "%d rounds of 250-item create + read-back batches on one environment" % rounds})
        so[1].update({"rounds_done": 0, "fail": "hang"})
        so += [{"err": "hang"}] * 3
    c.cov["stress_rounds"] = so[1]["rounds_done"]
    c.evaluations += so[1]["rounds_done"]
    if so[1]["fail"] or so[3]["err"]:
        c.finding_or_violation({"kind": "open-batch-history", "what": so[1]["fail"] or so[3]["err"]},
                               {"history": "%d rounds of 250-item create + read-back batches on one environment" % rounds})
    # ---- many failing items with long names (tens of kilobytes of error text in one reply), good items among them and at the end
    longn = "n" * 180
    bitems = []
    for k in range(96):
        bitems.append({"path": "/w/absent-directory-%d/%s" % (k, longn), "flag": 0, "perm": 0} if k % 24 != 7 else
                      {"path": "/w/good%d" % k, "flag": 0o102, "perm": 0o600, "write": "g%d" % k})
    bitems.append({"path": "/w/last", "flag": 0o102, "perm": 0o600, "write": "last"})
    lo = c.run_harness(exe, [{"id": 0, "ops": [{"op": "newenv"}, {"op": "open", "items": bitems}, {"op": "ping"},
                                               {"op": "symlink", "links": [{"link": "/w/absent-directory-%d/%s" % (k, longn), "target": "x"} for k in range(96)] + [{"link": "/w/lastlink", "target": "last"}]},
                                               {"op": "exec", "args": [T, "kinds", "/w/last", "/w/lastlink", "/w/good7"]}, {"op": "newenv"}]}], env=env, timeout=600)[0]["obs"]
    c.count("long-error-texts", nontrivial=True, klass="batch:long-errors")
    lcanon = lambda what, **kw: dict({"kind": "open-batch", "what": what, "failing_items": 92, "error_text_bytes": "about 25000"}, **kw)
    if len(lo) < 5 or any(x.get("hang") for x in lo):
        c.finding_or_violation(lcanon("a batch with many failing items never returned"), {"observed": lo})
    else:
        res = lo[1].get("results") or []
        if lo[1].get("err") or len(res) != len(bitems):
            c.finding_or_violation(lcanon("batch failed as a whole: " + str(lo[1].get("err"))[:80]), {"items": "96 items, 92 of them below directories that do not exist, then one good item", "observed": lo[1]})
        else:
            for k, (itm, x) in enumerate(zip(bitems, res)):
                good = "write" in itm
                if good != ("err" not in x):
                    c.finding_or_violation(lcanon("result %d does not belong to item %d" % (k, k), index=k, item_is_good=good), {"item": itm, "result": x})
                    break
        if lo[2].get("err"):
            c.finding_or_violation(lcanon("the environment is unusable after the batch: " + lo[2]["err"][:60]), {"observed": lo[1:3]})
        sres = lo[3].get("results") if isinstance(lo[3].get("results"), list) and not lo[3].get("err") else None
        kinds = json.loads(lo[4]["stdout"]) if lo[4].get("stdout", "").startswith("[") else None
        if kinds is not None and (kinds[0].split(":")[0] != "reg" or not kinds[1].startswith("sym") or kinds[2].split(":")[0] != "reg"):
            c.finding_or_violation(lcanon("good items of the batch did not take effect", kinds=kinds), {"observed": lo[1:5]})
        if sres is not None and (len(sres) != 97 or any(not e for e in sres[:96]) or sres[96]):
            c.finding_or_violation(lcanon("Symlink results are not aligned with the request (impossible links reported as made, or the good one as failed)"), {"observed": lo[3]})
    # ---- a batch with more succeeding items than one message can carry descriptors (SCM_MAX_FD = 253)
    bo = c.run_harness(exe, [{"id": 0, "ops": [{"op": "newenv"}, {"op": "openstress", "rounds": 1, "n": 253}, {"op": "ping"}, {"op": "openstress", "rounds": 1, "n": 254}, {"op": "ping"},
                                               {"op": "newenv"}]}], env=env, timeout=600)[0]["obs"]
    c.count("batch-253-254", nontrivial=True, klass="batch:descriptor-limit")
    if len(bo) < 5 or bo[1].get("fail") or bo[2].get("err"):
        c.finding_or_violation({"kind": "open-batch-history", "what": "a batch of 253 items fails or leaves the environment unusable", "detail": str(bo[1:3])[:200]},
                               {"history": "Open of 253 new files, then Ping", "observed": bo[1:3]})
    elif bo[3].get("hang") or bo[3].get("fail") or (len(bo) > 4 and bo[4].get("err")):
        c.finding_or_violation({"kind": "open-batch-big", "what": "a batch with more than 253 succeeding items fails as a whole and the environment is unusable afterwards",
                                "items": 254, "environment_dead": bool(len(bo) > 4 and bo[4].get("err"))},
                               {"history": "Open of 254 new files, then Ping", "observed": bo[3:5]})
    c.sample({"state": metas[0]["before"], "batch": metas[0]["items"], "observed": obs[0]["obs"][2].get("results")})
    body = HDR + "Definition cs := %s.\nDefinition M := Eval vm_compute in failing batch_ok cs.\nPrint M.\n" % coq_list(coq_items)
    for i in c.parse_nums(c.parse_printed(c.coq_eval("batch", body), "M").replace("%N", "")):
        dis.append({"relation": "batch_ok (result classes and descriptor positions vs cont_open;host_open)", "index": i})
    c.cov["scenarios"] = nsc
    c.cov["correspondence_disagreements"] = len(dis)
    if dis:
        c.cov["disagreement_samples"] = dis[:5]
        if not c.violations:
            c.violation({"kind": "correspondence-broken", "theorems_no_longer_about_the_code": c.theorems, "disagreements": dis[:10]}, no_input=True)

"""C14 — Open/Delete/Symlink are index-aligned and safe against planted objects.
Tie: random batches against file-system states planted by a program inside a real container;
per-index result classes and descriptor identities vs Container/Batch.v evaluated in Coq."""
import json
import os

from vlib import coq_list, coq_bool

FINISH = dict(level="proof", rule=(
    "scenarios: a program plants regular files, directories, FIFOs, sockets, symlinks (to a secret file, to a directory, "
    "dangling) and parent directories that are absent / present / a regular file; then one Open batch of 0..64 items "
    "(5 flag words, MkdirAll on/off, repeated paths), a re-open of every returned file (identity), a kinds probe, a "
    "Symlink batch and Deletes.  Non-trivial: a batch with at least one failing and one succeeding item; distinct = "
    "distinct (state, batch) pairs.  Long batches: 65..400 items (at most 250 succeeding) over planted states, failing items "
    "placed late / sparsely / in blocks / everywhere, for every failure reason; every result must carry exactly one of file and "
    "error, the k-th one as the state at the k-th path implies, the error naming the k-th path, the descriptor being the file "
    "the host sees at the k-th path (inode and a token written through it); no descriptor may stay open in the caller; a "
    "short batch and a Ping afterwards."))

HDR = "From GS Require Import Container.Batch Container.BatchProofs Container.EvalBatch.\n"
O_CREAT, O_EXCL, O_TRUNC = 0o100, 0o200, 0o1000
# RDONLY, WRONLY, WRONLY|CREAT|TRUNC, RDWR|CREAT, WRONLY|CREAT|EXCL, and the same with O_NOFOLLOW / O_NONBLOCK (which change nothing about what may be opened)
FLAGS = [0, 1, 0o1101, 0o102, 0o301, 0o400000, 0o400001, 0o404000, 0o400102, 0o4000]
KINDS = ["absent", "reg", "dir", "fifo", "sym_secret", "sym_dangling", "sym_dir", "sock"]


def plant_args(path, kind):
    if kind == "reg":
        return ["reg", path, "old"]
    if kind == "dir":
        return ["dir", path, "-"]
    if kind == "fifo":
        return ["fifo", path, "-"]
    if kind == "sock":
        return ["sock", path, "-"]
    if kind == "sym_secret":
        return ["sym", path, "/w/secret"]
    if kind == "sym_dangling":
        return ["sym", path, "/w/nowhere"]
    if kind == "sym_dir":
        return ["sym", path, "/w"]
    return []


def parent(p):
    return p.rsplit("/", 1)[0]


def sim_open(state, item):
    """sequential semantics of handleOpen on the planted state; returns (item_env, code)"""
    path, flag, mk = item["path"], item["flag"], item.get("mkdirall", False)
    par = parent(path)
    pk = "dir" if par == "/w" else state.get(par, "absent")
    mkdir_ok = True
    if mk:
        if pk == "absent":
            state[par] = "dir"
            pk = "dir"
        elif pk != "dir":
            mkdir_ok = False
    if mk and not mkdir_ok:
        return (True, False, 0, False), 1
    if pk == "absent":
        ls = 0          # ENOENT counts as absent
    elif pk != "dir":
        ls = 3          # ENOTDIR: a genuine lstat error
    else:
        k = state.get(path, "absent")
        ls = 0 if k == "absent" else 1 if k == "reg" else 2
    if ls == 3:
        return (mk, True, 3, False), 2
    if ls == 2:
        return (mk, True, 2, False), 3
    if ls == 0:
        ok = pk == "dir" and bool(flag & O_CREAT)
        if ok:
            state[path] = "reg"
    else:
        ok = not (flag & O_CREAT and flag & O_EXCL)
    return (mk, True, ls, ok), (0 if ok else 4)


def err_class(s):
    if s.startswith("mkdir:"):
        return 1
    if "is not a regular file" in s:
        return 3
    if s.startswith("lstat "):
        return 2
    if s.startswith("open "):
        return 4
    return 9


LONG_SIZES = [65, 96, 100, 127, 128, 129, 130, 160, 192, 200, 250, 255, 256, 257, 300, 320, 384, 400]
LONG_PATTERNS = ["late", "sparse", "last", "scattered", "blocks", "alternating", "early"]
MAX_OK = 250            # one reply cannot carry more than 253 descriptors (known finding, its own scenario below)
OK_FLAGS_NEW = [0o1101, 0o102, 0o301, 0o400102]
OK_FLAGS_REG = [0, 1, 0o1101, 0o102, 0o400000, 0o400001, 0o404000, 0o400102, 0o4000, 2]
VIEW_KIND = {"reg": "reg", "dir": "dir", "fifo": "fifo", "sock": "sock", "sym_secret": "sym", "sym_dangling": "sym", "sym_dir": "sym", "absent": "absent"}


def long_fail_set(r, n, pattern):
    if pattern == "late":
        lo = n - max(1, n // r.choice([3, 4, 8]))
        return set(r.sample(range(lo, n), min(n - lo, r.randint(1, 8))))
    if pattern == "sparse":
        return set(r.sample(range(n), r.randint(1, 3)))
    if pattern == "last":
        return {n - 1} | ({n - 2} if r.random() < 0.3 else set())
    if pattern == "early":
        return set(r.sample(range(min(n, 60)), r.randint(1, 6)))
    if pattern == "scattered":
        p = r.choice([0.05, 0.15, 0.4])
        return set(k for k in range(n) if r.random() < p) or {r.randrange(n)}
    if pattern == "alternating":
        ph = r.randint(0, 1)
        return set(k for k in range(n) if k % 2 == ph)
    f, k, bad = set(), 0, r.random() < 0.5        # blocks
    while k < n:
        ln = r.randint(1, 40)
        if bad:
            f |= set(range(k, min(n, k + ln)))
        k += ln
        bad = not bad
    return f or {n - 1}


def long_scenario(r):
    """one long batch over a planted state: (plants, state, items, pattern)"""
    n = r.choice(LONG_SIZES) if r.random() < 0.7 else r.randint(65, 400)
    pattern = r.choice(LONG_PATTERNS)
    fails = long_fail_set(r, n, pattern)
    state = {"/w/secret": "reg", "/w/L": "dir", "/w/R": "reg"}
    plants = ["reg", "/w/secret", "TOP", "dir", "/w/L", "-", "many", "/w/L", str(n), "reg", "/w/R", "x"]
    for k in range(n):
        state["/w/L/f%d" % k] = "reg"
    fresh = [0]

    def failing_item(k):
        why = r.choice(["sym_secret", "sym_dangling", "sym_dir", "fifo", "dir", "sock", "missing", "excl", "notdir", "mkdir-notdir", "noparent"])
        fresh[0] += 1
        if why in ("sym_secret", "sym_dangling", "sym_dir", "fifo", "dir", "sock"):
            p = "/w/L/g%d" % fresh[0]
            state[p] = why
            plants.extend(plant_args(p, why))
            return {"path": p, "flag": r.choice(FLAGS), "perm": 0o644, "mkdirall": r.random() < 0.2}
        if why == "missing":
            return {"path": "/w/L/m%d" % fresh[0], "flag": r.choice([0, 1, 2, 0o400000]), "perm": 0o644, "mkdirall": r.random() < 0.2}
        if why == "excl":
            return {"path": "/w/L/f%d" % k, "flag": 0o301, "perm": 0o644, "mkdirall": False}
        if why == "notdir":
            return {"path": "/w/R/x%d" % fresh[0], "flag": r.choice(FLAGS), "perm": 0o644, "mkdirall": False}
        if why == "mkdir-notdir":
            return {"path": "/w/R/y%d" % fresh[0], "flag": r.choice(FLAGS), "perm": 0o644, "mkdirall": True}
        return {"path": "/w/A%d/z" % fresh[0], "flag": 0o102, "perm": 0o644, "mkdirall": False}

    def good_item(k):
        c = r.random()
        if c < 0.5:
            return {"path": "/w/L/f%d" % k, "flag": r.choice(OK_FLAGS_REG), "perm": 0o644, "mkdirall": r.random() < 0.2}
        if c < 0.85:
            return {"path": "/w/L/n%d" % k, "flag": r.choice(OK_FLAGS_NEW), "perm": 0o600, "mkdirall": r.random() < 0.2}
        return {"path": "/w/M%d/x" % (k % 5), "flag": r.choice([0o102, 0o1101]), "perm": 0o600, "mkdirall": True} if c < 0.95 else \
               {"path": "/w/L/f%d" % r.randrange(n), "flag": r.choice([0, 2]), "perm": 0, "mkdirall": False}      # a path that may occur twice

    items = [failing_item(k) if k in fails else good_item(k) for k in range(n)]
    while True:
        st = dict(state)
        codes = [sim_open(st, it)[1] for it in items]
        oks = [k for k, cd in enumerate(codes) if cd == 0]
        if len(oks) <= MAX_OK:
            break
        for k in r.sample(oks, len(oks) - MAX_OK):       # more successes than one reply can carry: some more items fail
            items[k] = failing_item(k)
    return plants, state, items, pattern


def obs_class(x):
    if x.get("file") and x.get("err") is None:
        return 0
    if x.get("err") is not None and not x.get("file"):
        return err_class(x["err"])
    return 9


def run(c):
    exe = c.build_harness("h_env")
    exe14 = c.build_harness("h_c14")
    c.build_probe("target")
    scratch = c.tmpdir("scratch")
    env = dict(os.environ, VERIF_SCRATCH=scratch)
    r = c.rng("scenarios")
    T = "/vb/probe_target"
    nsc = 60 if c.quick() else 600
    cases, metas = [], []
    for sid in range(nsc):
        state = {"/w/secret": "reg"}
        plants = ["reg", "/w/secret", "TOP"]
        paths = []
        for k in range(r.randint(3, 10)):
            p = "/w/p%d" % k
            kind = r.choice(KINDS)
            paths.append(p)
            if kind != "absent":
                state[p] = kind
                plants += plant_args(p, kind)
        for k in range(r.randint(0, 3)):
            d = "/w/s%d" % k
            dk = r.choice(["absent", "dir", "reg"])
            if dk != "absent":
                state[d] = dk
                plants += plant_args(d, dk)
            paths.append(d + "/x")
            if dk == "dir" and r.random() < 0.5:
                kk = r.choice(["reg", "fifo", "sym_secret"])
                state[d + "/x"] = kk
                plants += plant_args(d + "/x", kk)
        before = dict(state)
        n = r.choice([0, 1, 2, 3, 5, 8, 13, 21, 40, 64]) if r.random() < 0.8 else r.randint(0, 64)
        items = []
        for _ in range(n):
            p = r.choice(paths)
            items.append({"path": p, "flag": r.choice(FLAGS), "perm": 0o644, "mkdirall": r.random() < 0.4})
        envs, codes = [], []
        st = dict(state)
        for it in items:
            e, code = sim_open(st, it)
            envs.append(e)
            codes.append(code)
        reopen = [{"path": it["path"], "flag": 0, "perm": 0} for it, cd in zip(items, codes) if cd == 0]
        links = []
        for k in range(r.randint(0, 6)):
            lp = r.choice(paths + ["/w/newlink%d" % k])
            links.append({"link": lp, "target": r.choice(["/w/secret", "x", "/etc/passwd"])})
        dels = [r.choice(paths + ["/w/none"]) for _ in range(r.randint(0, 3))]
        ops = [{"op": "reset"}, {"op": "exec", "args": [T, "plant"] + plants}]
        if items:
            ops.append({"op": "open", "items": items})
        else:
            ops.append({"op": "open", "items": []})
        if reopen:
            ops.append({"op": "open", "items": reopen})
        allp = sorted(set(paths + [parent(p) for p in paths if parent(p) != "/w"] + ["/w/secret", "/w/nowhere"]))
        ops.append({"op": "exec", "args": [T, "kinds"] + allp})
        if links:
            ops.append({"op": "symlink", "links": links})
        for d in dels:
            ops.append({"op": "delete", "path": d})
        ops.append({"op": "exec", "args": [T, "kinds"] + allp + [l["link"] for l in links]})
        ops.append({"op": "ping"})
        cases.append({"id": sid, "ops": ops})
        metas.append({"before": before, "after_open": st, "items": items, "envs": envs, "codes": codes, "reopen": reopen,
                      "allp": allp, "links": links, "dels": dels})
    obs = c.run_harness(exe, cases, env=env, timeout=900)
    coq_items, dis = [], []
    for case, meta, o in zip(cases, metas, obs):
        if "harness_err" in o:
            raise RuntimeError(o["harness_err"])
        ob = o["obs"]
        if o.get("skipped_after_hangs"):
            continue
        if o.get("hang"):
            hung = ob[-1]["op"] if ob else "?"
            c.finding_or_violation({"kind": "open-batch", "what": "a call never returned (the environment is blocked from then on)", "call": hung,
                                    "planted_kinds": sorted(set(meta["before"].values()))},
                                   {"history": case["ops"][:len(ob)], "state": meta["before"], "items": meta["items"]}, klass="hang:" + hung)
            continue
        it = iter(ob)
        o_reset, o_plant, o_open = next(it), next(it), next(it)
        if o_plant.get("exit") != 0 or o_plant.get("status") != 1:
            raise RuntimeError("planting failed: %r" % o_plant)
        items, codes = meta["items"], meta["codes"]
        nt = len(set(codes)) > 1
        c.count(json.dumps([meta["before"], items], sort_keys=True), nontrivial=nt,
                klass="batch:%s" % ("empty" if not items else "mixed" if nt else "uniform"))
        canon = lambda what, **kw: dict({"kind": "open-batch", "what": what}, **kw)
        if not items:
            if not o_open["err"]:
                c.finding_or_violation(canon("empty batch not answered with an error"), {"observed": o_open})
            o_re = None
        else:
            if o_open["err"]:
                c.finding_or_violation(canon("batch failed as a whole: " + o_open["err"]), {"case": items, "state": meta["before"]})
                continue
            res = o_open["results"]
            got = [0 if "err" not in x else err_class(x["err"]) for x in res]
            coq_items.append("(%s, %s)" % (coq_list(["mkenv %s %s %d %s" % (coq_bool(a), coq_bool(b), l, coq_bool(d)) for a, b, l, d in meta["envs"]]),
                                         coq_list([str(g) for g in got])))
            o_re = next(it) if meta["reopen"] else None
            # ---- property oracle on the implementation's output
            if len(res) != len(items):
                c.finding_or_violation(canon("result count differs from request count"), {"case": items, "observed": res})
            st = dict(meta["before"])
            reidx = 0
            for k, (itm, x) in enumerate(zip(items, res)):
                kind_before = st.get(itm["path"], "absent")
                _, code = sim_open(st, itm)
                if "err" not in x:
                    if kind_before not in ("absent", "reg"):
                        c.finding_or_violation(canon("descriptor handed out for a planted object", planted=kind_before, index=k),
                                               {"item": itm, "state": meta["before"], "result": x})
                    if x["accmode"] != itm["flag"] & 3 or not x["cloexec"] or x["name"] != itm["path"] or (x["mode"] & 0o170000) != 0o100000:
                        c.finding_or_violation(canon("returned file has wrong mode/flags/name", index=k), {"item": itm, "result": x})
                if code == 0 and "err" not in x and o_re and not o_re.get("err"):
                    y = o_re["results"][reidx] if reidx < len(o_re["results"]) else {"err": "missing"}
                    if "err" in y or (y["dev"], y["ino"]) != (x["dev"], x["ino"]):
                        c.finding_or_violation(canon("k-th descriptor is not the file at the k-th path", index=k),
                                               {"item": itm, "first": x, "reopened": y, "batch": items})
                if code == 0:
                    reidx += 1
                if (code == 0) != ("err" not in x):
                    c.finding_or_violation(canon("item outcome differs from what the planted state implies", index=k,
                                                 expected_class=code, planted=kind_before),
                                           {"item": itm, "result": x, "state": meta["before"], "batch": items})
            if o_open["ms"] > 3000:
                c.finding_or_violation(canon("Open blocked (%d ms)" % o_open["ms"]), {"case": items})
        o_k1 = next(it)
        kinds1 = dict(zip(meta["allp"], json.loads(o_k1["stdout"])))
        if not kinds1["/w/secret"].startswith("reg:3") or kinds1["/w/nowhere"] != "absent":
            c.finding_or_violation({"kind": "planted-symlink-followed", "secret": kinds1["/w/secret"], "nowhere": kinds1["/w/nowhere"]},
                                   {"batch": items, "state": meta["before"]})
        # symlink batch
        st = {p: k.split(":")[0] for p, k in kinds1.items()}
        if meta["links"]:
            o_l = next(it)
            if o_l["err"] or len(o_l["results"]) != len(meta["links"]):
                c.finding_or_violation({"kind": "symlink-batch", "what": "failed / wrong length"}, {"observed": o_l})
            else:
                for k, (l, e) in enumerate(zip(meta["links"], o_l["results"])):
                    par = parent(l["link"])
                    can = (par == "/w" or st.get(par) == "dir") and st.get(l["link"], "absent") == "absent"
                    if can:
                        st[l["link"]] = "sym"
                    if can != (e is None):
                        c.finding_or_violation({"kind": "symlink-batch", "what": "k-th error does not belong to the k-th link", "index": k},
                                               {"links": meta["links"], "results": o_l["results"], "state": kinds1})
        for d in meta["dels"]:
            o_d = next(it)
            k = st.get(d, "absent")
            par = parent(d)
            can = k not in ("absent",) and (par == "/w" or st.get(par) == "dir")
            if k == "dir":
                can = not any(p.startswith(d + "/") and st.get(p, "absent") != "absent" for p in st)
            if can:
                st[d] = "absent"
            if can != (o_d["err"] is None):
                c.finding_or_violation({"kind": "delete", "what": "outcome differs from state", "path": d, "kind_at_path": k}, {"observed": o_d})
        o_k2 = next(it)
        o_ping = next(it)
        if o_ping["err"]:
            c.finding_or_violation({"kind": "environment-unusable-after-batch", "err": o_ping["err"]}, {"ops": case["ops"]})
        kinds2 = dict(zip(meta["allp"] + [l["link"] for l in meta["links"]], json.loads(o_k2["stdout"])))
        for p, k in kinds2.items():
            if st.get(p, "absent") != k.split(":")[0]:
                c.finding_or_violation({"kind": "state-after-history", "path": p, "expected": st.get(p, "absent"), "observed": k},
                                       {"ops": case["ops"]})
    # ---- long batches (65..400 items) over planted states, failures anywhere -- in particular late in the batch
    rl = c.rng("long-batches")
    nlong = 14 if c.quick() else 120
    lcases, lmetas = [], []
    while len(lcases) < nlong:
        plants, state, items, pattern = long_scenario(rl)
        if sum(len(a) + 3 for a in plants) > 20000 or sum(len(i["path"]) + 60 for i in items) > 28000:
            continue        # the request would not fit into one message (a limit of the transport, C10)
        st = dict(state)
        envs, codes = [], []
        for it in items:
            e, code = sim_open(st, it)
            envs.append(e)
            codes.append(code)
        cnt = {}
        for it in items:
            cnt[it["path"]] = cnt.get(it["path"], 0) + 1
        for k, (it, cd) in enumerate(zip(items, codes)):
            if cd == 0 and cnt[it["path"]] == 1 and it["flag"] & 3 in (1, 2):
                it["token"] = "item-%d;" % k
        view = sorted(set([it["path"] for it in items] + [parent(it["path"]) for it in items] + ["/w/secret", "/w/nowhere", "/w/R"]))
        after = [{"path": "/w/L/after-missing", "flag": 0, "perm": 0}, {"path": "/w/L/after-new", "flag": 0o102, "perm": 0o600, "token": "after"}]
        ops = [{"op": "reset"}, {"op": "exec", "args": [T, "plant"] + plants}, {"op": "openx", "items": items, "view": view},
               {"op": "ping"}, {"op": "openx", "items": after, "view": ["/w/L/after-missing", "/w/L/after-new"]}, {"op": "ping"}]
        lcases.append({"id": len(lcases), "ops": ops})
        lmetas.append({"state": state, "after_state": st, "items": items, "envs": envs, "codes": codes, "view": view, "pattern": pattern})
    c.log("long batches: %d scenarios, %d items" % (nlong, sum(len(m["items"]) for m in lmetas)))
    lobs = c.run_harness(exe14, lcases, env=env, timeout=900)
    c.log("long batches run")
    for case, meta, o in zip(lcases, lmetas, lobs):
        if "harness_err" in o:
            raise RuntimeError(o["harness_err"])
        if o.get("skipped_after_hangs"):
            continue
        items, codes, n = meta["items"], meta["codes"], len(meta["items"])
        fidx = [k for k, cd in enumerate(codes) if cd != 0]
        shape = {"items": n, "failing_items": len(fidx), "first_failing_index": fidx[0] if fidx else None, "last_failing_index": fidx[-1] if fidx else None,
                 "placement": meta["pattern"]}
        c.count(json.dumps([meta["state"], items], sort_keys=True), nontrivial=bool(fidx) and len(fidx) < n,
                klass="long-batch:%s:%s" % (meta["pattern"], "<=128" if n <= 128 else "<=256" if n <= 256 else ">256"))
        lc = lambda what, **kw: dict({"kind": "open-batch", "what": what, "long_batch": True}, **kw)
        hist = {"history": case["ops"], "batch_shape": shape, "expected_classes (0 = a file; 1 mkdir, 2 lstat, 3 not regular, 4 open error)": codes}
        ob = o["obs"]
        if o.get("hang"):
            c.finding_or_violation(lc("a call never returned (the environment is blocked from then on)", call=ob[-1]["op"] if ob else "?"),
                                   dict(hist, observed=ob[-1:]), klass="long:hang")
            continue
        o_plant, o_open, o_ping, o_after, o_ping2 = ob[1], ob[2], ob[3], ob[4], ob[5]
        if o_plant.get("exit") != 0 or o_plant.get("status") != 1:
            raise RuntimeError("planting failed: %r" % o_plant)
        if o_open["err"]:
            c.finding_or_violation(lc("batch failed as a whole: " + o_open["err"][:120]), dict(hist, observed={k: v for k, v in o_open.items() if k != "view"}),
                                   klass="long:whole")
        else:
            res = o_open["results"]
            got = [obs_class(x) for x in res]
            hist["observed_classes (9 = neither a file nor an error, or both)"] = got
            coq_items.append("(%s, %s)" % (coq_list(["mkenv %s %s %d %s" % (coq_bool(a), coq_bool(b), l, coq_bool(d)) for a, b, l, d in meta["envs"]]),
                                         coq_list([str(g) for g in got])))
            if len(res) != n:
                c.finding_or_violation(lc("result count differs from request count", requested=n, returned=len(res)), hist, klass="long:count")
            vw = dict(zip(meta["view"], o_open["view"]))
            for k, (itm, x, cd) in enumerate(zip(items, res, codes)):
                kind_before = meta["state"].get(itm["path"], "absent")
                at = lambda **kw: dict(hist, index=k, item=itm, expected="a file and no error" if cd == 0 else "an error (class %d) and no file" % cd,
                                       observed=x, planted_at_path=kind_before, **kw)
                if bool(x.get("file")) == (x.get("err") is not None):
                    c.finding_or_violation(lc("a result carries %s" % ("both a file and an error" if x.get("file") else "neither a file nor an error")),
                                           at(), klass="long:shape")
                    continue
                if (cd == 0) != bool(x.get("file")):
                    c.finding_or_violation(lc("item outcome differs from what the planted state implies", expected_class=cd, planted=kind_before),
                                           at(), klass="long:outcome")
                    continue
                if x.get("err") is not None:
                    if itm["path"] not in x["err"] and parent(itm["path"]) not in x["err"]:
                        c.finding_or_violation(lc("the k-th error is about another path"), at(), klass="long:errtext")
                    continue
                if kind_before not in ("absent", "reg"):
                    c.finding_or_violation(lc("descriptor handed out for a planted object", planted=kind_before), at(), klass="long:planted")
                if x.get("accmode") != itm["flag"] & 3 or not x.get("cloexec") or x.get("name") != itm["path"] or (x.get("mode", 0) & 0o170000) != 0o100000:
                    c.finding_or_violation(lc("returned file has wrong mode/flags/name"), at(), klass="long:mode")
                hv = vw.get(itm["path"], {})
                if hv.get("kind") != "reg" or (hv.get("dev"), hv.get("ino")) != (x.get("dev"), x.get("ino")):
                    c.finding_or_violation(lc("k-th descriptor is not the file at the k-th path"), at(host_view_of_path=hv), klass="long:identity")
                elif "token" in itm and (x.get("write_err") is not None or not hv.get("head", "").startswith(itm["token"])):
                    c.finding_or_violation(lc("what is written through the k-th descriptor does not arrive in the file at the k-th path"),
                                           at(host_view_of_path=hv), klass="long:token")
            # no effect besides the items' own: every path is afterwards what the sequential reading of the batch implies
            for pth, hv in vw.items():
                want = VIEW_KIND[meta["after_state"].get(pth, "absent")]
                if hv.get("kind") != want:
                    c.finding_or_violation(lc("state after the batch differs from the items' own effects", path=pth, expected=want, observed=hv.get("kind")), hist,
                                           klass="long:state")
            if vw["/w/secret"].get("head") != "TOP":
                c.finding_or_violation({"kind": "planted-symlink-followed", "secret": vw["/w/secret"], "long_batch": True}, hist, klass="long:secret")
            if o_open["fd_after"] > o_open["fd_before"]:
                c.finding_or_violation(lc("descriptors received by the caller stay open although every returned file was closed",
                                          left_open=o_open["fd_after"] - o_open["fd_before"]),
                                       dict(hist, expected="as many open descriptors in the calling process after the call (all returned files closed) as before: %d" % o_open["fd_before"],
                                            observed="%d open descriptors" % o_open["fd_after"]), klass="long:leak")
            if o_open["call_ms"] > 20000:
                c.finding_or_violation(lc("Open blocked (%d ms)" % o_open["call_ms"]), hist, klass="long:slow")
        # the protocol is still in step: a short batch and a ping afterwards
        ar = o_after.get("results") or []
        if o_ping.get("err") or o_ping2.get("err") or o_after.get("err") or [obs_class(x) for x in ar] != [4, 0] or \
                o_after["view"][1].get("head") != "after" or o_after["view"][0].get("kind") != "absent":
            c.finding_or_violation({"kind": "environment-unusable-after-batch", "long_batch": True, "err": str(o_ping.get("err") or o_after.get("err") or o_ping2.get("err"))[:80]},
                                   dict(hist, after_the_batch={"ping": o_ping, "open [missing file, new file]": o_after, "ping again": o_ping2},
                                        expected="ping answered; [an open error, a file]; ping answered"), klass="long:after")
    c.cov["long_batches"] = nlong
    c.log("long batches evaluated")
    # ---- long histories of large batches (descriptor lifetime in init across garbage collections)
    rounds = 500 if c.quick() else 3000
    so = c.run_harness(exe, [{"id": 0, "ops": [{"op": "reset"}, {"op": "openstress", "rounds": rounds, "n": 250}, {"op": "reset"}, {"op": "ping"}]}],
                       env=env, timeout=1800)[0]["obs"]
    if so[1].get("hang"):
        c.finding_or_violation({"kind": "open-batch-history", "what": "a batch never returned"}, {"history": "%d rounds of 250-item create + read-back batches on one environment" % rounds})
        so[1].update({"rounds_done": 0, "fail": "hang"})
        so += [{"err": "hang"}] * 3
    c.cov["stress_rounds"] = so[1]["rounds_done"]
    c.evaluations += so[1]["rounds_done"]
    if so[1]["fail"] or so[3]["err"]:
        c.finding_or_violation({"kind": "open-batch-history", "what": so[1]["fail"] or so[3]["err"]},
                               {"history": "%d rounds of 250-item create + read-back batches on one environment" % rounds})
    # ---- many failing items with long names (tens of kilobytes of error text in one reply), good items among them and at the end
    longn = "n" * 180
    bitems = []
    for k in range(96):
        bitems.append({"path": "/w/absent-directory-%d/%s" % (k, longn), "flag": 0, "perm": 0} if k % 24 != 7 else
                      {"path": "/w/good%d" % k, "flag": 0o102, "perm": 0o600, "write": "g%d" % k})
    bitems.append({"path": "/w/last", "flag": 0o102, "perm": 0o600, "write": "last"})
    lo = c.run_harness(exe, [{"id": 0, "ops": [{"op": "newenv"}, {"op": "open", "items": bitems}, {"op": "ping"},
                                               {"op": "symlink", "links": [{"link": "/w/absent-directory-%d/%s" % (k, longn), "target": "x"} for k in range(96)] + [{"link": "/w/lastlink", "target": "last"}]},
                                               {"op": "exec", "args": [T, "kinds", "/w/last", "/w/lastlink", "/w/good7"]}, {"op": "newenv"}]}], env=env, timeout=600)[0]["obs"]
    c.count("long-error-texts", nontrivial=True, klass="batch:long-errors")
    lcanon = lambda what, **kw: dict({"kind": "open-batch", "what": what, "failing_items": 92, "error_text_bytes": "about 25000"}, **kw)
    if len(lo) < 5 or any(x.get("hang") for x in lo):
        c.finding_or_violation(lcanon("a batch with many failing items never returned"), {"observed": lo})
    else:
        res = lo[1].get("results") or []
        if lo[1].get("err") or len(res) != len(bitems):
            c.finding_or_violation(lcanon("batch failed as a whole: " + str(lo[1].get("err"))[:80]), {"items": "96 items, 92 of them below directories that do not exist, then one good item", "observed": lo[1]})
        else:
            for k, (itm, x) in enumerate(zip(bitems, res)):
                good = "write" in itm
                if good != ("err" not in x):
                    c.finding_or_violation(lcanon("result %d does not belong to item %d" % (k, k), index=k, item_is_good=good), {"item": itm, "result": x})
                    break
        if lo[2].get("err"):
            c.finding_or_violation(lcanon("the environment is unusable after the batch: " + lo[2]["err"][:60]), {"observed": lo[1:3]})
        sres = lo[3].get("results") if isinstance(lo[3].get("results"), list) and not lo[3].get("err") else None
        kinds = json.loads(lo[4]["stdout"]) if lo[4].get("stdout", "").startswith("[") else None
        if kinds is not None and (kinds[0].split(":")[0] != "reg" or not kinds[1].startswith("sym") or kinds[2].split(":")[0] != "reg"):
            c.finding_or_violation(lcanon("good items of the batch did not take effect", kinds=kinds), {"observed": lo[1:5]})
        if sres is not None and (len(sres) != 97 or any(not e for e in sres[:96]) or sres[96]):
            c.finding_or_violation(lcanon("Symlink results are not aligned with the request (impossible links reported as made, or the good one as failed)"), {"observed": lo[3]})
    # ---- a batch with more succeeding items than one message can carry descriptors (SCM_MAX_FD = 253)
    bo = c.run_harness(exe, [{"id": 0, "ops": [{"op": "newenv"}, {"op": "openstress", "rounds": 1, "n": 253}, {"op": "ping"}, {"op": "openstress", "rounds": 1, "n": 254}, {"op": "ping"},
                                               {"op": "newenv"}]}], env=env, timeout=600)[0]["obs"]
    c.count("batch-253-254", nontrivial=True, klass="batch:descriptor-limit")
    if len(bo) < 5 or bo[1].get("fail") or bo[2].get("err"):
        c.finding_or_violation({"kind": "open-batch-history", "what": "a batch of 253 items fails or leaves the environment unusable", "detail": str(bo[1:3])[:200]},
                               {"history": "Open of 253 new files, then Ping", "observed": bo[1:3]})
    elif bo[3].get("hang") or bo[3].get("fail") or (len(bo) > 4 and bo[4].get("err")):
        c.finding_or_violation({"kind": "open-batch-big", "what": "a batch with more than 253 succeeding items fails as a whole and the environment is unusable afterwards",
                                "items": 254, "environment_dead": bool(len(bo) > 4 and bo[4].get("err"))},
                               {"history": "Open of 254 new files, then Ping", "observed": bo[3:5]})
    c.sample({"state": metas[0]["before"], "batch": metas[0]["items"], "observed": obs[0]["obs"][2].get("results")})
    body = HDR + "Definition cs := %s.\nDefinition M := Eval vm_compute in failing batch_ok cs.\nPrint M.\n" % coq_list(coq_items)
    for i in c.parse_nums(c.parse_printed(c.coq_eval("batch", body), "M").replace("%N", "")):
        dis.append({"relation": "batch_ok (result classes and descriptor positions vs cont_open;host_open)", "index": i})
    c.cov["scenarios"] = nsc
    c.cov["correspondence_disagreements"] = len(dis)
    if dis:
        c.cov["disagreement_samples"] = dis[:5]
        if not c.violations:
            c.violation({"kind": "correspondence-broken", "theorems_no_longer_about_the_code": c.theorems, "disagreements": dis[:10]}, no_input=True)

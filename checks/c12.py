"""C12 — no residue.  Tie: histories of runs and environment operations in one host process; before and after each
history the descriptors, goroutines and children of the host, the descriptors and children of the container init,
and every process carrying the history's token are counted.  Programs are hostile trees (two generations, every task
ignoring all signals, optionally in their own sessions) that are still running when the run is cancelled."""
import json
import os

FINISH = dict(level="proof", rule=(
    "histories of 20 (thorough 200) operations drawn from: ptrace / namespace / container runs of a 7-task tree ignoring all "
    "signals (own sessions in the pid-namespace runners) cancelled after 150..300 ms, runs that end by themselves, container "
    "Execve failing before fork / at sync (failing callback, sync before and after exec) / after sync (missing executable), Open "
    "batches with failing items, launches that fail at exec, Build + Destroy, Build that fails after the container was started; "
    "Open batches of 1..5 entries whose targets are of every kind a path can name (directories, mount points, device nodes, fifos, "
    "links, sockets, missing and regular files; read / write / create flags; refused entries first, in the middle, last, alone), "
    "Reset (1..3 times) after a program planted files of every kind, in environments of four shapes (plain; read-only data bound "
    "below the work directory; a tmpfs below the second tmpfs; a writable store some levels below the work "
    "directory and a device node in it) -- in the last three Reset fails every time.  Besides the counters at the end of a history, the "
    "descriptors of the container init are counted right before and right after every Open / Reset (each time once the init "
    "answered a ping) and must be equal.  Non-trivial: a history with at least one cancelled and one failing operation; distinct = distinct histories."))

O = dict(r=os.O_RDONLY, w=os.O_WRONLY, rw=os.O_RDWR, c=os.O_CREAT | os.O_RDWR, rn=os.O_RDONLY | os.O_NONBLOCK, a=os.O_WRONLY | os.O_APPEND)
# (path, kind of what the path names once the planting program has run -- in some shapes of environment some are missing)
TARGETS = [("/w", "dir"), ("/tmp", "dir"), ("/", "dir"), ("/w/d1", "dir"), ("/tmp/td", "dir"), ("/w/data", "mountpoint"), ("/tmp/sub", "mountpoint"),
           ("/w/a/b/store", "mountpoint"), ("/dev/null", "device"), ("/dev/zero", "device"), ("/w/null", "device"), ("/w/ff", "fifo"), ("/tmp/td/ff", "fifo"),
           ("/w/sl", "link-to-file"), ("/w/sld", "link-to-dir"), ("/w/dangling", "dangling-link"), ("/w/sock", "socket"),
           ("/w/reg", "regular"), ("/tmp/td/f3", "regular"), ("/w/data/input.txt", "regular-readonly"), ("/w/nodir/x", "missing"),
           ("/w/fresh", "missing")]
NOT_FILES = [t for t in TARGETS if t[1] not in ("regular", "regular-readonly", "missing")]


def open_batch(r):
    """a batch of 1..5 entries; at least one names something that is not a regular file, at any position"""
    n = r.choice([1, 1, 2, 3, 5])
    ts = [r.choice(TARGETS) for _ in range(n)]
    ts[r.randrange(n)] = r.choice(NOT_FILES)
    out = []
    for path, kind in ts:
        fl = r.choice(["r", "r", "w", "rw", "c", "rn", "a"])
        if kind == "fifo" and fl in ("w", "a"):
            fl = "r"   # a write-only open of a fifo without reader would rightly block the caller: not a residue question
        if path == "/w/fresh":
            path, fl = "/w/fresh%d" % r.randrange(4), "c"
        out.append({"path": path, "names": kind, "flag": O[fl], "flag_name": fl, "mkdir_all": r.random() < 0.15})
    return out


def env_ops(r, n):
    ops = []
    for _ in range(n):
        if r.random() < 0.5:
            ops.append({"kind": "open_kinds", "args": [], "timeout_ms": 5000, "targets": open_batch(r), "plant": r.random() < 0.8})
        else:
            ops.append({"kind": "reset", "args": [], "timeout_ms": 5000, "times": r.choice([1, 1, 2, 3]), "plant": r.random() < 0.8})
    return ops


def blame(base, trace, final, ops, log):
    """operations after which the descriptor count of the host never again came down to what it was before them"""
    if not trace or base is None or final is None:
        return []
    seq = [base] + list(trace) + [final]
    out = []
    for i in range(len(trace)):
        later = min(seq[i + 1:])
        if later > seq[i]:
            out.append({"op_index": i, "op": ops[i], "outcome": log[i] if i < len(log) else None, "host_fds_before": seq[i], "lowest_host_fds_ever_after": later})
    return out[:8]


def run(c):
    exe = c.build_harness("h_c12")
    c.build_probe("target")
    scratch = c.tmpdir("scratch")
    env = dict(os.environ, VERIF_SCRATCH=scratch)
    r = c.rng("histories")
    pool = [
        {"kind": "ptrace", "args": ["tree", "3", "TOKEN"], "timeout_ms": 200},
        {"kind": "ns", "args": ["tree", "3", "TOKEN", "setsid"], "timeout_ms": 200},
        {"kind": "container", "args": ["tree", "3", "TOKEN", "setsid"], "timeout_ms": 200},
        {"kind": "container", "args": ["tree", "2", "TOKEN"], "timeout_ms": 150, "sync_after": True},
        {"kind": "ptrace", "args": ["exit", "3"], "timeout_ms": 3000},
        {"kind": "ns", "args": ["exit", "0"], "timeout_ms": 3000},
        {"kind": "container", "args": ["exit", "0"], "timeout_ms": 3000},
        {"kind": "container", "args": ["RAW", "/w/missing"], "timeout_ms": 3000},
        {"kind": "container", "args": ["RAW", "nosuchcmd"], "timeout_ms": 3000},
        {"kind": "container", "args": ["exit", "0"], "timeout_ms": 3000, "cb": "fail"},
        {"kind": "container", "args": ["exit", "0"], "timeout_ms": 3000, "cb": "fail", "sync_after": True},
        {"kind": "container", "args": ["RAW", "nosuchcmd"], "timeout_ms": 3000, "files": True},
        {"kind": "container", "args": ["RAW", "nosuchcmd"], "timeout_ms": 3000, "files": True, "execfd": True},
        {"kind": "container", "args": ["RAW"], "timeout_ms": 3000, "files": True},
        {"kind": "container", "args": ["RAW", "/w/missing"], "timeout_ms": 3000, "files": True},
        {"kind": "container", "args": ["exit", "0"], "timeout_ms": 3000, "files": True, "cb": "fail"},
        {"kind": "container", "args": ["exit", "0"], "timeout_ms": 3000, "files": True},
        {"kind": "ptrace", "args": ["exit", "3"], "timeout_ms": 3000, "bg": True},
        {"kind": "ns", "args": ["exit", "0"], "timeout_ms": 3000, "bg": True},
        {"kind": "container", "args": ["exit", "0"], "timeout_ms": 3000, "bg": True},
        {"kind": "container", "args": ["tree", "2", "TOKEN"], "timeout_ms": 3000, "cb": "fail_late", "sync_after": True},
        {"kind": "container", "args": ["tree", "2", "TOKEN", "setsid"], "timeout_ms": 3000, "cb": "fail_late", "sync_after": True, "files": True},
        {"kind": "idmapfail", "args": [], "timeout_ms": 1000},
        {"kind": "destroy_broken", "args": [], "timeout_ms": 3000},
        {"kind": "destroy_dead", "args": [], "timeout_ms": 3000},
        {"kind": "open", "args": [], "timeout_ms": 1000},
        {"kind": "forkfail", "args": [], "timeout_ms": 1000},
        {"kind": "clonefail", "args": [], "timeout_ms": 1000},
        {"kind": "builddestroy", "args": [], "timeout_ms": 3000},
        {"kind": "buildfail", "args": [], "timeout_ms": 3000},
        {"kind": "buildfail_conf", "args": [], "timeout_ms": 3000},
        {"kind": "buildfail_init", "args": [], "timeout_ms": 3000},
    ]
    # the new kinds take part in every history
    pool += env_ops(c.rng("envops-pool"), 6)
    cases = []
    nh = 4 if c.quick() else 12
    for h in range(nh):
        n = 20 if c.quick() else 200
        ops = [dict(r.choice(pool)) for _ in range(n)]
        # every history contains each kind of operation at least once
        if h == 0:
            ops = [dict(x) for x in pool] + ops[len(pool):]
        cases.append({"id": h, "token": "tk%d_%d_%d" % (os.getpid(), c.seed, h), "shared_env": True, "ops": ops})
    cases.append({"id": nh, "token": "tk%d_%d_b" % (os.getpid(), c.seed), "shared_env": False,
                  "ops": [{"kind": "buildfail", "args": [], "timeout_ms": 3000}] * 3 + [{"kind": "buildfail_conf", "args": [], "timeout_ms": 3000}] * 3 +
                         [{"kind": "buildfail_init", "args": [], "timeout_ms": 3000}] * 2 + [{"kind": "builddestroy", "args": [], "timeout_ms": 3000}] * 3})
    # histories in environments with mount points below the tmpfs mounts (Reset fails there), dense in environment operations
    r2 = c.rng("shaped-histories")
    shapes = ["robind", "nested_tmpfs", "deep_bind", "plain"]
    for j in range(len(shapes) if c.quick() else 2 * len(shapes)):
        n = 8 if c.quick() else 60
        ops = env_ops(r2, n) + [dict(r2.choice(pool)) for _ in range(n)]
        r2.shuffle(ops)
        if j % 2 == 1:
            # ... also with the failing operation as the very last of the history
            ops.append(env_ops(r2, 1)[0])
        cases.append({"id": len(cases), "token": "tk%d_%d_s%d" % (os.getpid(), c.seed, j), "shared_env": True, "env_shape": shapes[j % len(shapes)], "ops": ops})
    obs = c.run_harness(exe, cases, env=env, timeout=1800)
    for x, o in zip(cases, obs):
        if "harness_err" in o:
            raise RuntimeError(o["harness_err"])
        kinds = [op["kind"] + (":cancel" if op["args"][:1] == ["tree"] else "") for op in x["ops"]]
        if o.get("hang"):
            c.finding_or_violation({"kind": "residue", "what": "an operation of the history never returned", "detail": o["hang"]},
                                   {"history": x["ops"], "log": o.get("log")}, klass="hang")
            continue
        c.count(json.dumps(x["ops"]), nontrivial=any(k.endswith(":cancel") for k in kinds), klass="history")
        c.evaluations += len(x["ops"]) - 1
        if o.get("left_after_run"):
            c.finding_or_violation({"kind": "residue", "what": "children of the container init (zombies included) are left when a failed or cancelled run has returned",
                                    "count": o["left_after_run"]}, {"history": x["ops"], "after": o.get("left_after_which"), "log": o["log"]}, klass="residue:init-children-after-run")
        shape = x.get("env_shape", "plain")
        for d in o.get("init_fds_deviations") or []:
            # an environment operation has returned (and the init has answered a ping since): the init holds as many descriptors as before
            c.finding_or_violation({"kind": "residue", "what": "descriptors of the container init are not back at baseline when an Open / Reset has returned",
                                    "op_kind": d["op"]["kind"], "env_shape": shape},
                                   {"env_shape": shape, "failing_operation": d, "expected": "init_fds_after_op == init_fds_before_op (== init_fds_baseline)",
                                    "history_up_to_it": x["ops"][:d["op_index"] + 1], "log_up_to_it": o["log"][:d["op_index"] + 1],
                                    "init_fds_trace": o.get("init_fds_trace")}, klass="residue:init-fds-after-op")
        diff = {k: (o["base"][k], o["after"][k]) for k in o["base"] if o["after"].get(k) != o["base"][k]}
        if diff or o["token_procs"]:
            # which kinds of operations the history contained
            c.finding_or_violation({"kind": "residue", "changed": {k: list(v) for k, v in diff.items()}, "surviving_processes": o["token_procs"],
                                    "history_kinds": sorted(set(kinds))}, {"history": x["ops"], "log": o["log"], "env_shape": shape,
                                    "observed_vs_expected": {k: {"baseline": v[0], "after_history": v[1]} for k, v in diff.items()},
                                    "operations_that_raised_host_descriptors_for_good": blame(o["base"].get("fds"), o.get("host_fds_trace"), o["after"].get("fds"), x["ops"], o["log"]),
                                    "init_fds_trace": o.get("init_fds_trace")},
                                   klass="residue:" + ",".join(sorted(diff)) + (":procs" if o["token_procs"] else ""))
    c.sample({"history": cases[0]["ops"][:6], "baseline": obs[0]["base"], "after": obs[0]["after"], "surviving": obs[0]["token_procs"]})
    c.cov["histories"] = len(cases)
    c.cov["history_elapsed_ms"] = [[x.get("env_shape", "plain"), len(x["ops"]), o.get("elapsed_ms")] for x, o in zip(cases, obs)]
    c.cov["operations"] = sum(len(x["ops"]) for x in cases)

"""C12 — no residue.  Tie: histories of runs and environment operations in one host process; before and after each
history the descriptors, goroutines and children of the host, the descriptors and children of the container init,
and every process carrying the history's token are counted.  Programs are hostile trees (two generations, every task
ignoring all signals, optionally in their own sessions) that are still running when the run is cancelled."""
import json
import os

FINISH = dict(level="proof", rule=(
    "histories of 20 (thorough 200) operations drawn from: ptrace / namespace / container runs of a 7-task tree ignoring all "
    "signals (own sessions in the pid-namespace runners) cancelled after 150..300 ms, runs that end by themselves, container "
    "Execve failing before fork / at sync (failing callback, sync before and after exec) / after sync (missing executable), Open "
    "batches with failing items, launches that fail at exec, Build + Destroy, Build that fails after the container was started.  "
    "Non-trivial: a history with at least one cancelled and one failing operation; distinct = distinct histories."))


def run(c):
    exe = c.build_harness("h_c12")
    c.build_probe("target")
    scratch = c.tmpdir("scratch")
    env = dict(os.environ, VERIF_SCRATCH=scratch)
    r = c.rng("histories")
    pool = [
        {"kind": "ptrace", "args": ["tree", "3", "TOKEN"], "timeout_ms": 200},
        {"kind": "ns", "args": ["tree", "3", "TOKEN", "setsid"], "timeout_ms": 200},
        {"kind": "container", "args": ["tree", "3", "TOKEN", "setsid"], "timeout_ms": 200},
        {"kind": "container", "args": ["tree", "2", "TOKEN"], "timeout_ms": 150, "sync_after": True},
        {"kind": "ptrace", "args": ["exit", "3"], "timeout_ms": 3000},
        {"kind": "ns", "args": ["exit", "0"], "timeout_ms": 3000},
        {"kind": "container", "args": ["exit", "0"], "timeout_ms": 3000},
        {"kind": "container", "args": ["RAW", "/w/missing"], "timeout_ms": 3000},
        {"kind": "container", "args": ["RAW", "nosuchcmd"], "timeout_ms": 3000},
        {"kind": "container", "args": ["exit", "0"], "timeout_ms": 3000, "cb": "fail"},
        {"kind": "container", "args": ["exit", "0"], "timeout_ms": 3000, "cb": "fail", "sync_after": True},
        {"kind": "container", "args": ["RAW", "nosuchcmd"], "timeout_ms": 3000, "files": True},
        {"kind": "container", "args": ["RAW", "nosuchcmd"], "timeout_ms": 3000, "files": True, "execfd": True},
        {"kind": "container", "args": ["RAW"], "timeout_ms": 3000, "files": True},
        {"kind": "container", "args": ["RAW", "/w/missing"], "timeout_ms": 3000, "files": True},
        {"kind": "container", "args": ["exit", "0"], "timeout_ms": 3000, "files": True, "cb": "fail"},
        {"kind": "container", "args": ["exit", "0"], "timeout_ms": 3000, "files": True},
        {"kind": "ptrace", "args": ["exit", "3"], "timeout_ms": 3000, "bg": True},
        {"kind": "ns", "args": ["exit", "0"], "timeout_ms": 3000, "bg": True},
        {"kind": "container", "args": ["exit", "0"], "timeout_ms": 3000, "bg": True},
        {"kind": "container", "args": ["tree", "2", "TOKEN"], "timeout_ms": 3000, "cb": "fail_late", "sync_after": True},
        {"kind": "container", "args": ["tree", "2", "TOKEN", "setsid"], "timeout_ms": 3000, "cb": "fail_late", "sync_after": True, "files": True},
        {"kind": "idmapfail", "args": [], "timeout_ms": 1000},
        {"kind": "destroy_broken", "args": [], "timeout_ms": 3000},
        {"kind": "destroy_dead", "args": [], "timeout_ms": 3000},
        {"kind": "open", "args": [], "timeout_ms": 1000},
        {"kind": "forkfail", "args": [], "timeout_ms": 1000},
        {"kind": "clonefail", "args": [], "timeout_ms": 1000},
        {"kind": "builddestroy", "args": [], "timeout_ms": 3000},
        {"kind": "buildfail", "args": [], "timeout_ms": 3000},
        {"kind": "buildfail_conf", "args": [], "timeout_ms": 3000},
        {"kind": "buildfail_init", "args": [], "timeout_ms": 3000},
    ]
    cases = []
    nh = 4 if c.quick() else 12
    for h in range(nh):
        n = 20 if c.quick() else 200
        ops = [dict(r.choice(pool)) for _ in range(n)]
        # every history contains each kind of operation at least once
        if h == 0:
            ops = [dict(x) for x in pool] + ops[len(pool):]
        cases.append({"id": h, "token": "tk%d_%d_%d" % (os.getpid(), c.seed, h), "shared_env": True, "ops": ops})
    cases.append({"id": nh, "token": "tk%d_%d_b" % (os.getpid(), c.seed), "shared_env": False,
                  "ops": [{"kind": "buildfail", "args": [], "timeout_ms": 3000}] * 3 + [{"kind": "buildfail_conf", "args": [], "timeout_ms": 3000}] * 3 +
                         [{"kind": "buildfail_init", "args": [], "timeout_ms": 3000}] * 2 + [{"kind": "builddestroy", "args": [], "timeout_ms": 3000}] * 3})
    obs = c.run_harness(exe, cases, env=env, timeout=1800)
    for x, o in zip(cases, obs):
        if "harness_err" in o:
            raise RuntimeError(o["harness_err"])
        kinds = [op["kind"] + (":cancel" if op["args"][:1] == ["tree"] else "") for op in x["ops"]]
        if o.get("hang"):
            c.finding_or_violation({"kind": "residue", "what": "an operation of the history never returned", "detail": o["hang"]},
                                   {"history": x["ops"], "log": o.get("log")}, klass="hang")
            continue
        c.count(json.dumps(x["ops"]), nontrivial=any(k.endswith(":cancel") for k in kinds), klass="history")
        c.evaluations += len(x["ops"]) - 1
        if o.get("left_after_run"):
            c.finding_or_violation({"kind": "residue", "what": "children of the container init (zombies included) are left when a failed or cancelled run has returned",
                                    "count": o["left_after_run"]}, {"history": x["ops"], "after": o.get("left_after_which"), "log": o["log"]}, klass="residue:init-children-after-run")
        diff = {k: (o["base"][k], o["after"][k]) for k in o["base"] if o["after"].get(k) != o["base"][k]}
        if diff or o["token_procs"]:
            # which kinds of operations the history contained
            c.finding_or_violation({"kind": "residue", "changed": {k: list(v) for k, v in diff.items()}, "surviving_processes": o["token_procs"],
                                    "history_kinds": sorted(set(kinds))}, {"history": x["ops"], "log": o["log"]},
                                   klass="residue:" + ",".join(sorted(diff)) + (":procs" if o["token_procs"] else ""))
    c.sample({"history": cases[0]["ops"][:6], "baseline": obs[0]["base"], "after": obs[0]["after"], "surviving": obs[0]["token_procs"]})
    c.cov["histories"] = len(cases)
    c.cov["operations"] = sum(len(x["ops"]) for x in cases)

"""C13 — pooled containers carry no state between runs; sealed executables are immutable.
Tie (a): histories of hostile programs creating trees in every writable mount of a real container, then Reset; the top-level
names of each mount before and after Reset (host view through /proc/<init>/root and the view of a later program) are
compared with `populate` / `reset` of the model; the oracle demands that nothing is left in any writable mount.
Tie (b): memfd.DupToMemfd on readers of every protocol shape (scripted chunkings with empty reads, data together with EOF,
failing readers; bytes / buffer / file / pipe / iotest readers) and sizes; content, position, seals and the outcome of every
modification attempt by a holder and by the program executed from it are compared with `dup_to_memfd` / `mstep`."""
import json
import os

from vlib import coq_list

FINISH = dict(level="proof", rule=(
    "reset: histories of 1..3 pool cycles, each 1..3 programs creating 5..40 entries in the writable mounts (/w, /tmp, "
    "/home/u/work): regular files, directories up to 5 deep, dangling / valid / directory symlinks, FIFOs, sockets, hard links, "
    "names that are hidden, 255 bytes long, contain newlines, spaces, dashes, non-ASCII bytes or look like '...', directories "
    "left with mode 000, 'many' (up to 300; thorough 20000) entries and chains deeper than PATH_MAX (3000 levels); non-trivial: "
    "a history leaving at least 3 kinds of entry and one 000 directory.  memfd: sizes 0..4 MiB around page and buffer boundaries "
    "x 14 reader kinds (among them files, byte readers and section readers whose beginning was already consumed), and readers that "
    "are descriptors of an in-memory file of the supplier in each of the 32 seal states (plus one that does not allow sealing), handed over as the "
    "supplier's own descriptor, a duplicate or a read-only re-open, at the start or behind a consumed header: besides content, position, "
    "seals and refusal of every modification, the sealed file must not follow the supplier's later use of its reader or of its file; "
    "executables whose program attacks its image while running from it and again after exec'ing another binary with kept descriptors; non-trivial: size > 0 with a reader that is not a plain byte slice; distinct = distinct cases."))

HDR = "From Coq Require Import List NArith.\nImport ListNotations.\nFrom GS Require Import Container.Reset Container.EvalReset.\n"
NAMES = ["a", "b", "c", ".hidden", "...", " sp ace", "-dash", "né", "nl\nx", "x" * 255, ".x", "tmp", "w", "core", "\x01\x7f"]
LNAMES = ["l1", "l2", ".l3", "l\n4"]
KIND_NODE = {"reg": "NFile", "hard": "NFile", "fifo": "NFifo", "sock": "NSock", "sym": "NLink"}


class Names:
    def __init__(self):
        self.n = {}

    def num(self, s):
        return self.n.setdefault(s, len(self.n))


def split_args(args, limit=30000):
    """the plant arguments (triples) cut into consecutive lists none of which exceeds the size one request can carry"""
    parts, cur, size = [], [], 0
    for i in range(0, len(args), 3):
        t = args[i:i + 3]
        n = sum(len(a.encode("utf-8", "surrogateescape")) + 4 for a in t)
        if cur and size + n > limit:
            parts.append(cur)
            cur, size = [], 0
        cur += t
        size += n
    return parts + [cur] if (cur or not parts) else parts


def gen_history(r, mounts, big):
    """returns cycles (list of runs, each a flat plant argument list) and per-mount model operations per cycle"""
    cycles, model = [], []
    for _ in range(r.randint(1, 3)):
        runs, mops = [], {m: [] for m in mounts}
        dirs = {m: [[]] for m in mounts}      # directory paths (component lists) that were requested
        files = []
        top = {m: set() for m in mounts}      # names requested at the top level so far
        kinds = set()
        closing = []
        nruns = r.randint(1, 3)
        for ri in range(nruns):
            args = []
            for _ in range(r.randint(5, 40)):
                m = r.choice(mounts)
                parent = r.choice(dirs[m])
                k = r.choice(["reg", "reg", "dir", "dir", "dir", "sym", "sym", "fifo", "sock", "hard", "many", "deep"])
                if k in ("many", "deep") and r.random() < 0.7:
                    k = "reg"
                name = r.choice(LNAMES if k == "sym" else NAMES)
                path = m + "".join("/" + p for p in parent) + "/" + name
                if len(path) > 3900 or (k == "sock" and len(path.encode()) > 100):
                    continue
                fresh = not parent and name not in top[m]
                if not parent:
                    top[m].add(name)
                tgt = "-"
                if k == "sym":
                    tgt = r.choice(["/nonexistent/x", "/etc/passwd", "..", "/", m, "loop", "/proc/self/exe", ""]) or "e"
                elif k == "hard":
                    if not files:
                        continue
                    tgt = r.choice(files)
                    if not tgt.startswith(m + "/"):
                        continue                      # hard links do not cross mounts
                elif k == "reg":
                    tgt = r.choice(["-", "data", "x" * 3000])
                    if fresh:
                        files.append(path)            # certainly created: usable as the target of a hard link
                elif k == "dir":
                    if len(parent) < 5:
                        dirs[m].append(parent + [name])
                elif k == "many":
                    tgt = str(r.choice([20000, 5000]) if big else r.randint(2, 300))
                    k2 = "dir"
                    args += [k2, path, "-"]
                    mops[m].append((parent, name, "NDir 0 []"))
                    for j in range(int(tgt)):
                        mops[m].append((parent + [name], "f%d" % j, "NFile"))
                    args += ["many", path, tgt]
                    kinds.add("many")
                    continue
                elif k == "deep":
                    depth = 3000 if big else r.randint(2, 50)
                    args += ["dir", path, "-", "deep", path, str(depth)]
                    mops[m].append((parent, name, "NDir 0 []"))
                    pp = parent + [name]
                    for j in range(depth):
                        mops[m].append((list(pp), "d", "NDir 0 []"))
                        pp.append("d")
                    mops[m].append((pp, "leaf", "NFile"))
                    kinds.add("deep")
                    continue
                args += ["regx" if k == "reg" else k, path, tgt]
                kinds.add(k)
                mops[m].append((parent, name, "NDir 0 []" if k == "dir" else KIND_NODE[k]))
            if ri == nruns - 1:
                # the last program of the cycle leaves some directories without any permission bit
                for m in mounts:
                    for d in dirs[m][1:]:
                        if r.random() < 0.4:
                            closing += ["chmod", m + "".join("/" + p for p in d), "000"]
                            kinds.add("000")
                # deepest first so that the parents are still searchable
                tr = [closing[i:i + 3] for i in range(0, len(closing), 3)]
                tr.sort(key=lambda t: -t[1].count("/"))
                args += [x for t in tr for x in t]
            # some programs are started with the sync after exec and their callback then fails: they ran, the host saw a failed launch
            wrap = ri == 0 and nruns > 1 and r.random() < 0.3
            # one request of the container protocol carries at most 32 KiB: a longer program is run as two consecutive programs
            for part in split_args(args):
                runs.append({"args": part} if wrap else part)
        cycles.append(runs)
        model.append((mops, kinds))
    return cycles, model


def coq_ops(ops, names):
    return coq_list(["(%s, %d, %s)" % (coq_list([str(names.num(p)) for p in path]), names.num(name), node) for path, name, node in ops])


def hexnames(lst, names):
    return coq_list([str(names.num(bytes.fromhex(h).decode("utf-8", "surrogateescape"))) for h in (lst or [])])


def run(c):
    exe = c.build_harness("h_c13")
    c.build_probe("target")
    scratch = c.tmpdir("scratch")
    env = dict(os.environ, VERIF_SCRATCH=scratch)
    r = c.rng("reset")
    mounts = ["/w", "/tmp", "/home/u/work"]
    cases, meta = [], []
    nh = 30 if c.quick() else 300
    nbig = 2 if c.quick() else 10
    for i in range(nh + nbig):
        big = i >= nh
        cyc, model = gen_history(r, mounts, big)
        if i % 4 == 1:
            # a cycle whose only program is one whose sync callback fails (the host may believe nothing ran)
            for cy in cyc:
                if len(cy) == 1 and isinstance(cy[0], list):
                    cy[0] = {"args": cy[0]}
        cases.append({"id": i, "mode": "reset", "mounts": mounts, "cycles": cyc})
        meta.append((model, big))
    # writable mounts whose names are prefixes of one another (as strings, not as paths)
    for j in range(2 if c.quick() else 8):
        m2 = ["/w", "/work", "/tmp", "/tmpdata", "/w2/x"]
        cyc, model = gen_history(r, m2, False)
        cases.append({"id": len(cases), "mode": "reset", "mounts": m2, "cycles": cyc})
        meta.append((model, False))
    cases.append({"id": len(cases), "mode": "reset", "mounts": ["/w", "/tmp"], "rwbind": True,
                  "cycles": [[["regx", "/data/left-by-a-tenant", "x", "dir", "/data/d", "-", "regx", "/w/b", "-"]]]})
    meta.append((None, False))
    # the container init has a small descriptor limit and a program leaves a chain deeper than it: Reset may fail (and then says so), it may not
    # acknowledge with the chain still there
    for depth in (300, 700):
        cases.append({"id": len(cases), "mode": "reset", "mounts": ["/w", "/tmp"], "nofile": 256,
                      "cycles": [[["dir", "/w/dd", "-", "deep", "/w/dd", str(depth), "dir", "/tmp/dd", "-", "deep", "/tmp/dd", str(depth), "regx", "/w/b", "-"]]]})
        meta.append((None, False))
    obs = c.run_harness(exe, cases, env=env, timeout=1800)
    items, item_src, dis = [], [], []
    for x, (model, big), o in zip(cases, meta, obs):
        if "harness_err" in o:
            raise RuntimeError(o["harness_err"])
        names = Names()
        for ci, co in enumerate(o["cycles"]):
            if co.get("plant_err"):
                raise RuntimeError("plant program did not run: %s" % co["plant_err"])
            canon = lambda what, **kw: dict({"kind": "reset", "what": what}, **kw)
            rep = {"mounts": x["mounts"], "rwbind": bool(x.get("rwbind")), "cycles": x["cycles"][:ci + 1],
                   "observed": {k: v for k, v in co.items() if k != "before"}}
            if co.get("hang"):
                c.finding_or_violation(canon("Reset never returned"), rep, klass="hang")
                break
            prog = json.loads(co["after_prog"]) if co.get("after_prog", "").startswith("{") else None
            if prog is None:
                c.finding_or_violation(canon("no program can be run after Reset", out=str(co.get("after_prog"))[:80]), rep, klass="unusable")
                continue
            if x.get("nofile") and co.get("reset_err"):
                # an honest failure: nothing is claimed clean
                c.count(json.dumps([x["cycles"], ci, "nofile"]), nontrivial=True, klass="reset:refused-honestly")
                continue
            for m in (x["mounts"] + (["/data"] if x.get("rwbind") else [])):
                left = sorted(set(co["after_host"].get(m) or []) | set(prog.get(m) or []))
                if left:
                    kind = "tmpfs" if m in x["mounts"] else "writable-bind"
                    c.finding_or_violation(canon("entries of an earlier program remain after Reset", mount_kind=kind,
                                                 reset_error=bool(co.get("reset_err"))),
                                           dict(rep, mount=m, left=[bytes.fromhex(h).decode("utf-8", "replace") for h in left[:10]]),
                                           klass="left:" + kind)
            if co.get("reset_err") and not x.get("rwbind"):
                c.finding_or_violation(canon("Reset fails on what a program left behind", error=co["reset_err"][:100]), rep, klass="reset-error")
            if model is None:
                c.count(json.dumps([x["cycles"], ci]), nontrivial=True, klass="reset:rwbind")
                continue
            mops, kinds = model[ci]
            c.count(json.dumps([x["cycles"][ci], x["id"], ci]), nontrivial=len(kinds) >= 3 and "000" in kinds,
                    klass="reset:%s" % ("big" if big else "hist"))
            for k in kinds:
                c.dist["reset.kind." + k] = c.dist.get("reset.kind." + k, 0) + 1
            c.dist["reset.entries_before"] = c.dist.get("reset.entries_before", 0) + sum(max(v, 0) for v in co["reachable"].values())
            if not big:
                ms = []
                for m in x["mounts"]:
                    ms.append("(true, %s, %s, %s)" % (coq_ops(mops[m], names), hexnames(co["before"].get(m), names),
                                                      hexnames(co["after_host"].get(m), names)))
                items.append(coq_list(ms))
                item_src.append((x["id"], ci))
    c.sample({"history": [(a["args"] if isinstance(a, dict) else a)[:12] for a in cases[0]["cycles"][0]], "observed": {k: v for k, v in obs[0]["cycles"][0].items() if k != "before"},
              "top_level_before": {m: len(v or []) for m, v in obs[0]["cycles"][0]["before"].items()}})
    body = HDR + "Definition cs : list (list (bool * list (list nat * nat * node) * list nat * list nat)) := %s.\nDefinition M := Eval vm_compute in failing history_ok cs.\nPrint M.\n" % coq_list(items)
    for i in c.parse_nums(c.parse_printed(c.coq_eval("reset", body, timeout=1200 if c.quick() else 5400), "M").replace("%N", "")):
        hid, ci = item_src[i]
        dis.append({"relation": "history_ok (top-level names before and after Reset equal those of populate / reset)", "history": cases[hid]["cycles"][:ci + 1],
                    "observed": obs[hid]["cycles"][ci]["after_host"]})
    c.cov["reset_histories"] = len(cases)
    c.cov["reset_cycles_compared_in_coq"] = len(items)

    # ---------------- memfd
    r = c.rng("memfd")
    sizes = [0, 1, 2, 511, 512, 513, 4095, 4096, 4097, 8191, 8192, 32767, 32768, 32769, 65535, 65536, 65537, 1 << 20, (1 << 20) + 1]
    if not c.quick():
        sizes += [(4 << 20) - 1, 4 << 20, (4 << 20) + 123] + [r.randint(0, 300000) for _ in range(40)]
    readers = ["bytes", "buffer", "dataerr", "onebyte", "half", "limited", "file", "pipe", "timeout", "file_off", "file_read", "bytes_off", "section"]
    mc = []
    for s in sizes:
        for rd in readers:
            if rd == "onebyte" and s > 70000:
                continue
            mc.append({"mode": "memfd", "size": s, "seed": r.randint(1, 1 << 30), "reader": rd})
    for _ in range(150 if c.quick() else 1500):
        s = r.choice([0, 1, 2, 3, 10, 50, 200, 300])
        chunks, left = [], s
        for _ in range(r.randint(0, 8)):
            n = r.choice([0, 0, 1, 2, 7, 64, 300])
            chunks.append(n)
        final = r.choice(["eof", "eof", "eof", "err"])
        if r.random() < 0.5:
            chunks.append(-r.choice([1, 2, 5, 100, 300]))
        mc.append({"mode": "memfd", "size": s, "seed": r.randint(1, 1 << 30), "reader": "scripted", "chunks": chunks, "final": final})
    for s in [0, 1, 4096, 100000]:
        for rd in ["bytes", "dataerr", "pipe"]:
            mc.append({"mode": "memfd", "size": s, "seed": r.randint(1, 1 << 30), "reader": rd, "elf": True})
    # large executables: whatever the size, all of it
    for s, rd in [((128 << 20) + 4113, "bytes"), ((128 << 20) + 1, "pipe")] + ([((160 << 20), "file"), ((128 << 20), "half")] if not c.quick() else []):
        mc.append({"mode": "memfd", "size": s, "seed": r.randint(1, 1 << 30), "reader": rd})
    # the supplied bytes live in an in-memory file of the supplier (e.g. a cache of executables): every seal state the supplier may have
    # chosen for it x the descriptor it hands over x where that descriptor stands
    msizes = [0, 1, 2, 4095, 4096, 4097, 65537, 300001]
    for seals in range(32):
        for off in (0, r.choice([1, 7, 4096, 5000])):
            for handle in ("own", "dup", "reopen_ro"):
                for s in ([r.choice(msizes)] if c.quick() else r.sample(msizes, 3)):
                    mc.append({"mode": "memfd", "size": s, "seed": r.randint(1, 1 << 30), "reader": "memfd", "src_seals": seals, "src_off": off,
                               "src_handle": handle})
    for off in (0, 3):
        for handle in ("own", "dup", "reopen_ro"):
            mc.append({"mode": "memfd", "size": r.choice(msizes[1:]), "seed": r.randint(1, 1 << 30), "reader": "memfd", "src_seals": 0, "src_off": off,
                       "src_handle": handle, "src_nosealing": True})
    # programs that attack their executable while running from it and after replacing their image by another binary
    c.build_probe("exeaway")
    away = [("bytes", {}), ("pipe", {}), ("file", {}), ("dataerr", {}), ("memfd", {"src_nosealing": True, "src_seals": 0})]
    away += [("memfd", {"src_seals": q}) for q in ([0, 8, 9, 10, 11, 13, 15, 16, 24, 25, 31] if c.quick() else range(32))]
    for rd, extra in away:
        for s in ([r.choice([0, 1, 4096, 100000])] if c.quick() else [0, 4097]):
            x = dict({"mode": "memfd", "size": s, "seed": r.randint(1, 1 << 30), "reader": rd, "prog": "exeaway"}, **extra)
            if rd == "memfd":
                x.update(src_off=0 if r.random() < 0.8 else 64, src_handle=r.choice(["own", "dup", "reopen_ro"]))
            mc.append(x)
    for i, x in enumerate(mc):
        x["id"] = i
    mobs = c.run_harness(exe, mc, env=env, timeout=1800)
    mitems, msrc = [], []
    for x, o in zip(mc, mobs):
        if "harness_err" in o:
            raise RuntimeError(o["harness_err"])
        canon = lambda what, **kw: dict({"kind": "memfd", "what": what, "reader": x["reader"]}, **kw)
        rep = {"case": x, "observed": {k: v for k, v in o.items() if not k.endswith("bytes")}}
        c.count(json.dumps(x), nontrivial=x["size"] > 0 and x["reader"] != "bytes", klass="memfd:" + x["reader"])
        if o.get("hang"):
            c.finding_or_violation(canon("DupToMemfd never returned"), rep, klass="memfd-hang")
            continue
        should_fail = x["reader"] == "timeout" and x["size"] >= 1
        sim = None
        if x["reader"] == "scripted":
            # replay the script: what the reader hands out before it ends, and how it ends
            left, reads, done = x["size"], [], False
            for n in x["chunks"]:
                last = n < 0
                n = min(abs(n), left, 32 * 1024 if True else n)
                left -= n
                reads.append((n, "RNil" if not last else ("REof" if x["final"] == "eof" else "RErr")))
                if last:
                    done = True
                    break
            if not done:
                reads.append((0, "REof" if x["final"] == "eof" else "RErr"))
            should_fail = reads[-1][1] == "RErr"
            sim = reads
        if should_fail:
            if "err" not in o:
                c.finding_or_violation(canon("a failing reader yields a sealed file instead of an error", size=x["size"]), rep, klass="memfd-noerr")
            elif sim is not None:
                mitems.append((sim, None))
                msrc.append(x["id"])
            continue
        if "err" in o:
            c.finding_or_violation(canon("DupToMemfd fails on a well-behaved reader", error=o["err"][:80]), rep, klass="memfd-err")
            continue
        want_len = o["want_len"] if sim is None else sum(n for n, _ in sim)
        bad = []
        if sim is None and (o["len"] != o["want_len"] or o["sum"] != o["want"]):
            bad.append("content differs from the supplied bytes (%d of %d bytes)" % (o["len"], o["want_len"]))
        if sim is not None and o["len"] != want_len:
            bad.append("content differs from the supplied bytes (%d of %d bytes)" % (o["len"], want_len))
        if o["pos"] != 0:
            bad.append("not positioned at the start")
        if o["seals"] & 15 != 15:
            bad.append("seal set incomplete")
        if o["succeeded"]:
            bad.append("modification attempt succeeded: " + ",".join(o["succeeded"]))
        if (o["after_len"], o["after_sum"], o["after_seals"]) != (o["len"], o["sum"], o["seals"]):
            bad.append("content or seals changed after the attempts")
        if x.get("elf"):
            if o.get("run_status") != 1 or "modified=0" not in (o.get("run_out") or ""):
                bad.append("program executed from the sealed file: status %s output %r %s" % (o.get("run_status"), o.get("run_out"), o.get("run_err")))
        if o.get("pos_after_supplier_seeks"):
            bad.append("position follows the supplier's reader: at %s after the supplier moved its own descriptor" % o["pos_after_supplier_seeks"][:4])
        if "src_len" in o and (o["src_len"], o["src_sum"], o["src_seals"]) != (o["after_len"], o["after_sum"], o["after_seals"]):
            bad.append("content or seals changed through the supplier's file: the supplier did %s, %d bytes left" % (",".join(o.get("supplier_did") or []), o["src_len"]))
        if x.get("prog"):
            if o.get("away_status") != 1 or o.get("away_exit") != 0 or "inplace=0 away=0 " not in (o.get("away_out") or "") + " ":
                bad.append("program changed or could not run its sealed executable: status %s exit %s output %r %s" % (
                    o.get("away_status"), o.get("away_exit"), o.get("away_out"), o.get("away_err")))
            if (o.get("away_len"), o.get("away_sum"), o.get("away_seals")) != (o["len"], o["sum"], o["seals"]):
                bad.append("content or seals changed by the program: %s of %s bytes, seals %s" % (o.get("away_len"), o["len"], o.get("away_seals")))
        for b in bad:
            c.finding_or_violation(canon(b.split(" (")[0].split(":")[0]), dict(rep, detail=b), klass="memfd:" + b.split(" (")[0].split(":")[0])
        if sim is not None and "bytes" in o:
            mitems.append((sim, (o["bytes"], o["pos"], not o["succeeded"] and o["seals"] & 15 == 15)))
            msrc.append(x["id"])
    # Coq comparison of the scripted cases: the reads carry the bytes the reader handed out (regenerated from the observed content)
    cq = []
    for (sim, ob), cid in zip(mitems, msrc):
        x = mc[cid]
        import random as _r
        data = None
        if ob is not None:
            data = bytes.fromhex(ob[0])
        # supplied bytes: the harness derives them from the seed; the content observed for successful cases must equal their prefix,
        # which the sha comparison above (non-scripted) and the length comparison (scripted) check; here the model is fed the
        # observed prefix split as the script dictates, so position of chunk boundaries, empty reads and the final read matter
        off, reads = 0, []
        for n, e in sim:
            chunk = list(data[off:off + n]) if data is not None else [0] * n
            if data is not None and len(chunk) < n:
                chunk += [0] * (n - len(chunk))          # bytes the file lost: the model will disagree
            off += n
            reads.append("(%s, %s)" % (coq_list(["%d%%N" % b for b in chunk]), e))
        obs_c = "None" if ob is None else "Some (%s, %d, %s)" % (coq_list(["%d%%N" % b for b in data]), ob[1], "true" if ob[2] else "false")
        cq.append("(%s, %s)" % (coq_list(reads), obs_c))
    body = HDR + "Definition cs : list (reader * option (list N * nat * bool)) := %s.\nDefinition M := Eval vm_compute in failing memfd_ok cs.\nPrint M.\n" % coq_list(cq)
    for i in c.parse_nums(c.parse_printed(c.coq_eval("memfd", body, timeout=1200 if c.quick() else 5400), "M").replace("%N", "")):
        dis.append({"relation": "memfd_ok (content, position, refusal equal those of dup_to_memfd)", "case": mc[msrc[i]],
                    "observed": {k: v for k, v in mobs[msrc[i]].items() if not k.endswith("bytes")}})
    c.sample({"memfd_case": mc[5], "observed": {k: v for k, v in mobs[5].items() if not k.endswith("bytes")}})
    c.cov["memfd_cases"] = len(mc)
    c.cov["memfd_cases_compared_in_coq"] = len(cq)
    c.cov["traces_validated_against_impl"] = len(items) + len(cq)
    c.cov["correspondence_disagreements"] = len(dis)
    if dis:
        c.cov["disagreement_samples"] = dis[:3]
        if not c.violations:
            c.violation({"kind": "correspondence-broken", "theorems_no_longer_about_the_code": c.theorems, "disagreements": dis[:5]}, no_input=True)

"""C18 — path-set policy and counters.
Tie: exported methods of runner/ptrace/filehandler vs FileSet/Model.v, evaluated in Coq.
Oracle: independent Python statement of `Covered` / budgets on the implementation's outputs."""
import itertools
import json
import os

from vlib import coq_str, coq_list, coq_bool, coq_Z, coq_N

FINISH = dict(level="proof", rule=(
    "grid: every file set over the entry pool (x SystemRoot) x every path over {a,b,/,*} up to the "
    "length bound, through FileSet.IsInSetSmart (exhaustive); plus random long paths, cascade cases on a "
    "symlink farm (realPath differs from the raw path), Add/AddRange/AddFilePermission sequences and "
    "counter histories.  A case is non-trivial when the set is non-empty and the query non-empty; "
    "distinct = distinct (set, path) / distinct case bodies."))

HDR = "From GS Require Import Base.Str FileSet.Model FileSet.CounterProofs FileSet.Eval.\n"


def covers(e, p):
    if e == p:
        return True
    if e.endswith(b"/"):
        d = e[:-1]
        if p == d or p.startswith(d + b"/"):
            return True
    if e.endswith(b"/*"):
        d = e[:-2]
        if p.startswith(d + b"/") and b"/" not in p[len(d) + 1:]:
            return True
    return False


def covered(entries, root, p):
    return (root and p == b"/") or any(covers(e, p) for e in entries)


def b(x):
    return x.encode("latin-1") if isinstance(x, str) else x


def coq_fs(st):
    return "{| entries := %s; system_root := %s |}" % (
        coq_list([coq_str(b(e)) for e in st["entries"]]), coq_bool(st["root"]))


def coq_act(a):
    return {"allow": "Allow", "ban": "Ban", "kill": "Kill"}[a]


def overadmit_canon(entries, root, p):
    rel = len(p) > 0 and not p.startswith(b"/")
    via = None
    if b"/" in entries:
        via = "/"
    elif b"/*" in entries and b"/" not in p:
        via = "/*"
    return {"kind": "overadmit", "relative_nonempty_path": rel,
            "via_root_entry": via is not None, "path": p.decode("latin-1"),
            "entries": [e.decode("latin-1") for e in entries], "system_root": root}


def run(c):
    exe = c.build_harness("h_c18")
    disagreements = []   # (description, replay)
    # ------------------------------------------------------------------ grid
    if c.quick():
        pool = ["/", "/*", "/a", "/a/", "/a/*", "/a/b/", "a/*"]
        maxlen = 5
    else:
        pool = ["/", "/*", "/a", "/a/", "/a/*", "/a/b/", "a/*", "", "/a/b/*", "//"]
        maxlen = 6
    paths = [""]
    for n in range(1, maxlen + 1):
        paths += ["".join(t) for t in itertools.product("ab/*", repeat=n)]
    sets = []
    for k in range(len(pool) + 1):
        for comb in itertools.combinations(pool, k):
            for root in (False, True):
                sets.append({"entries": list(comb), "root": root})
    # chunks of sets -> one harness case and one Coq file each
    chunk = 64 if c.quick() else 128
    cases = []
    for i in range(0, len(sets), chunk):
        cases.append({"id": len(cases), "kind": "grid", "sets": sets[i:i + chunk], "paths": paths})
    obs = c.run_harness(exe, cases, timeout=900)
    c.log("grid: %d sets x %d paths observed" % (len(sets), len(paths)))
    pb = [b(p) for p in paths]
    # oracle on the implementation's own output + Coq comparison per chunk
    import concurrent.futures as cf

    def coq_chunk(k):
        cs, ob = cases[k], obs[k]
        body = HDR + "Definition sets := %s.\nDefinition paths := %s.\nDefinition rows := %s.\n" % (
            coq_list([coq_fs(x) for x in cs["sets"]]),
            coq_list([coq_str(p) for p in pb]),
            coq_list([coq_N(int(r)) for r in ob["rows"]]))
        body += "Definition M := Eval vm_compute in grid_mismatch sets paths rows.\nPrint M.\n"
        out = c.coq_eval("grid%d" % k, body)
        nums = c.parse_nums(c.parse_printed(out, "M").replace("%N", ""))
        return k, list(zip(nums[0::2], nums[1::2]))

    with cf.ThreadPoolExecutor(max_workers=8) as ex:
        results = list(ex.map(coq_chunk, range(len(cases))))
    for k, mism in results:
        for (i, j) in mism[:50]:
            st = cases[k]["sets"][i]
            disagreements.append({"relation": "grid_mismatch (IsInSetSmart vs is_in_set_smart)",
                                  "set": st, "path": paths[j]})
    over = 0
    for k, cs in enumerate(cases):
        for i, st in enumerate(cs["sets"]):
            row = int(obs[k]["rows"][i])
            ents = [b(e) for e in st["entries"]]
            for j, p in enumerate(pb):
                adm = (row >> j) & 1
                if adm and not covered(ents, st["root"], p):
                    over += 1
                    c.finding_or_violation(overadmit_canon(ents, st["root"], p),
                                           {"kind": "IsInSetSmart admits an uncovered path"})
            c.evaluations += len(pb)
    # distinct non-trivial: non-empty sets x non-empty paths (all distinct by construction)
    nt = sum(1 for st in sets if st["entries"]) * (len(paths) - 1)
    c.cov["grid"] = {"sets": len(sets), "paths": len(paths), "pool": pool, "max_path_len": maxlen,
                     "exhaustive": True, "overadmissions_seen": over}
    c.cov["exhaustive"] = True
    c.sample({"kind": "grid", "set": sets[37], "path": paths[100], "admitted": bool((int(obs[0]["rows"][37]) >> 100) & 1)})
    grid_nt = nt

    # --------------------------------------------------------- random smart
    r = c.rng("smart")
    nrand = 400 if c.quick() else 4000
    comps = ["a", "b", "usr", "lib", "x.y", "..", ".", "*", "", "\xff\x00z", "tmp"]
    rc = []
    for i in range(nrand):
        depth = r.randint(0, 12)
        absolute = r.random() < 0.8
        p = ("/" if absolute else "") + "/".join(r.choice(comps) for _ in range(depth))
        if r.random() < 0.1:
            p += "/"
        ents = []
        for _ in range(r.randint(0, 5)):
            cut = r.randint(0, len(p))
            pre = p[:cut]
            k = r.random()
            if k < 0.35:
                ents.append(pre + "/")
            elif k < 0.6:
                ents.append(pre + "/*")
            elif k < 0.8:
                ents.append(pre)
            else:
                ents.append("/" + "/".join(r.choice(comps) for _ in range(r.randint(0, 3))) + r.choice(["", "/", "/*"]))
        fal = [p] if r.random() < 0.05 else []
        rc.append({"id": i, "kind": "smart", "set": {"entries": ents, "false_entries": fal, "root": r.random() < 0.3}, "path": p})
    ro = c.run_harness(exe, rc)
    body = HDR + "Definition cs : list (fileset * str * bool) := %s.\n" % coq_list(
        ["(%s, %s, %s)" % (coq_fs({"entries": [e for e in x["set"]["entries"] if e not in x["set"]["false_entries"]],
                                   "root": x["set"]["root"]}), coq_str(b(x["path"])), coq_bool(o["in"]))
         for x, o in zip(rc, ro)])
    body += "Definition M := Eval vm_compute in failing (fun '(fs, p, o) => Bool.eqb (is_in_set_smart fs p) o) cs.\nPrint M.\n"
    for i in c.parse_nums(c.parse_printed(c.coq_eval("smart", body), "M").replace("%N", "")):
        disagreements.append({"relation": "is_in_set_smart on a random long path", "case": rc[i], "observed": ro[i]})
    for x, o in zip(rc, ro):
        ents = [b(e) for e in x["set"]["entries"] if e not in x["set"]["false_entries"]]
        p = b(x["path"])
        c.count(("smart", tuple(ents), p, x["set"]["root"]), nontrivial=bool(ents) and bool(p),
                klass="smart:" + ("abs" if p.startswith(b"/") else "rel") + (":in" if o["in"] else ":out"))
        if o["in"] and not covered(ents, x["set"]["root"], p):
            c.finding_or_violation(overadmit_canon(ents, x["set"]["root"], p),
                                   {"kind": "IsInSetSmart admits an uncovered path"})
    c.sample({"kind": "smart", "case": rc[0], "observed": ro[0]})

    # -------------------------------------------------------------- cascade
    farm = c.tmpdir("farm")
    os.makedirs(farm + "/real/d/e")
    open(farm + "/real/d/e/f", "w").close()
    open(farm + "/real/g", "w").close()
    os.symlink("real/d", farm + "/ld")            # relative link to a directory
    os.symlink(farm + "/real/g", farm + "/lg")    # absolute link to a file
    os.symlink("nowhere", farm + "/dangling")
    os.symlink("../ld/e", farm + "/real/up")
    names = [farm + x for x in ["/ld/e/f", "/lg", "/dangling", "/real/up/f", "/real/g", "/real/d/e/f", "/missing", "/ld", "/real/up"]] + ["", "/", "lg"]
    cands = [farm + x for x in ["/real/", "/real/d/e/*", "/real/g", "/ld/", "/lg", "/real/d/*", "/*", "/real/d/e/f", "/real/up/*"]] + ["/", farm]
    r = c.rng("cascade")
    ncas = 300 if c.quick() else 3000
    cc = []
    for i in range(ncas):
        def pick():
            return {"entries": r.sample(cands, r.randint(0, 3)), "root": r.random() < 0.1}
        cc.append({"id": i, "kind": "cascade", "dir": farm, "W": pick(), "R": pick(), "S": pick(), "B": pick(), "path": r.choice(names)})
    # soft-ban sets made of the root entry alone (stored as a flag, not in the map), asked about "/" and about a link to it
    os.symlink("/", farm + "/toroot")
    for k, (ents, root) in enumerate([(["/"], False), ([], True), (["/"], True), (["/", farm + "/real/g"], False)]):
        for path in ("/", farm + "/toroot", farm + "/real/g"):
            cc.append({"id": len(cc), "kind": "cascade", "dir": farm, "W": {"entries": [], "root": False}, "R": {"entries": [], "root": False},
                       "S": {"entries": [], "root": False}, "B": {"entries": ents, "root": root}, "path": path})
    # histories on one path name whose link is re-pointed between the queries: every answer is about where the name leads NOW
    os.makedirs(farm + "/t1")
    os.makedirs(farm + "/t2")
    open(farm + "/t1/f", "w").close()
    open(farm + "/t2/f", "w").close()
    os.symlink("t1", farm + "/flip")
    fl_c = [farm + x for x in ["/t1/*", "/t2/*", "/t1/f", "/t2/"]]
    for i in range(80 if c.quick() else 800):
        def pick2():
            return {"entries": r.sample(fl_c, r.randint(0, 2)), "root": False}
        cc.append({"id": len(cc), "kind": "cascade", "dir": farm, "W": pick2(), "R": pick2(), "S": pick2(), "B": pick2(), "path": farm + "/flip/f",
                   "relink": [farm + "/flip", r.choice(["t1", "t2", "t1", "t2", "nowhere"])]})
    # names under /proc that belong to OTHER processes against entries that speak of /proc/self (and the other way round): a set
    # entry covers the names it spells, whoever asks
    pr_c = ["/proc/self/exe", "/proc/self/*", "/proc/self/", "/proc/self/status", "/proc/1/status", "/proc/*", "/proc/%d/*" % os.getppid()]
    pr_n = ["/proc/1/exe", "/proc/1/status", "/proc/1/maps", "/proc/1", "/proc/%d/status" % os.getppid(), "/proc/%d/exe" % os.getppid(),
            "/proc/self/status", "/proc/self/exe", "/proc/4194000/status", "/proc/1/task/1/status", "/proc/uptime", "/proc/12/../1/status"]
    for i in range(120 if c.quick() else 900):
        def pick3():
            return {"entries": r.sample(pr_c, r.randint(0, 2)), "root": False}
        cc.append({"id": len(cc), "kind": "cascade", "dir": farm, "W": pick3(), "R": pick3(), "S": pick3(), "B": pick3(), "path": r.choice(pr_n)})
    co = c.run_harness(exe, cc)
    items = []
    for x, o in zip(cc, co):
        items.append("{| cc_sets := {| writable := %s; readable := %s; statable := %s; softban := %s |}; cc_name := %s; cc_real := %s; "
                     "cc_w := %s; cc_r := %s; cc_s := %s; cc_b := %s; cc_cw := %s; cc_cr := %s; cc_cs := %s |}" % (
                         coq_fs(x["W"]), coq_fs(x["R"]), coq_fs(x["S"]), coq_fs(x["B"]), coq_str(b(x["path"])), coq_str(b(o["real"])),
                         coq_bool(o["w"]), coq_bool(o["r"]), coq_bool(o["s"]), coq_bool(o["b"]),
                         coq_act(o["cw"]), coq_act(o["cr"]), coq_act(o["cs"])))
    body = HDR + "Definition cs := %s.\nDefinition M := Eval vm_compute in failing cascade_ok cs.\nPrint M.\n" % coq_list(items)
    for i in c.parse_nums(c.parse_printed(c.coq_eval("cascade", body), "M").replace("%N", "")):
        disagreements.append({"relation": "cascade_ok (FileSets / Handler.Check*)", "case": cc[i], "observed": co[i]})
    realdiff = 0
    for x, o in zip(cc, co):
        p, rp = b(x["path"]), b(o["real"])
        if rp != p and rp:
            realdiff += 1

        def adm(st):
            e = [b(y) for y in st["entries"]]
            return covered(e, st["root"], p) or covered(e, st["root"], rp)
        c.count(("cascade", json.dumps(x, sort_keys=True)), nontrivial=any(x[k]["entries"] for k in "WRSB"),
                klass="cascade:" + o["cw"] + "/" + o["cr"] + "/" + o["cs"])
        # property oracle (absolute names only; relative names are the known finding's territory)
        if not p.startswith(b"/") and p:
            continue
        want_w = adm(x["W"])
        want_r = want_w or adm(x["R"])
        want_s = want_r or adm(x["S"])
        ban = adm(x["B"])
        bad = None
        if o["w"] and not want_w or o["r"] and not want_r or o["s"] and not want_s:
            bad = "admitted without a covering entry"
        elif o["w"] and not o["r"] or o["r"] and not o["s"]:
            bad = "cascade broken (writable => readable => statable)"
        else:
            for got, ok in ((o["cw"], o["w"]), (o["cr"], o["r"]), (o["cs"], o["s"])):
                exp = "allow" if ok else ("ban" if ban else "kill")
                if got != exp:   # "a soft ban exactly when the soft-ban set covers the path, otherwise a kill"
                    bad = "refusal kind: expected %s got %s" % (exp, got)
        if bad:
            c.finding_or_violation({"kind": "cascade", "what": bad, "path": x["path"]}, {"case": x, "observed": o})
    c.cov["cascade"] = {"cases": ncas, "real_path_differs": realdiff}
    c.sample({"kind": "cascade", "case": cc[1], "observed": co[1]})

    # ------------------------------------------------------------------ ops
    r = c.rng("ops")
    nops = 200 if c.quick() else 2000
    oc = []
    pn = ["/", "/a", "/a/b/c", "/a/b/", "rel/x", "", "/x//y", "/a/b/c/d/e/f/g"]
    for i in range(nops):
        ops = []
        for _ in range(r.randint(1, 6)):
            k = r.random()
            if k < 0.4:
                ops.append({"op": "add", "set": r.choice("wrsb"), "name": r.choice(pn)})
            elif k < 0.6:
                ops.append({"op": "addrange", "set": r.choice("wrsb"), "names": [x for x in r.sample(pn, 3) if x.startswith("/")], "work": "/w"})
            else:
                ops.append({"op": "addperm", "name": r.choice(pn), "mode": r.choice([1, 2, 3, 3, 0, 7])})
        oc.append({"id": i, "kind": "ops", "ops": ops})
    oo = c.run_harness(exe, oc)
    wh = {"w": 0, "r": 1, "s": 2, "b": 3}

    def coq_op(o):
        if o["op"] == "add":
            return "OpAdd %d %s" % (wh[o["set"]], coq_str(b(o["name"])))
        if o["op"] == "addrange":
            return "OpAddAbs %d %s" % (wh[o["set"]], coq_list([coq_str(b(n)) for n in o["names"]]))
        return "OpAddPerm %s %s" % (coq_str(b(o["name"])), coq_Z(o["mode"]))
    items = ["(%s, {| writable := %s; readable := %s; statable := %s; softban := %s |})" % (
        coq_list([coq_op(o) for o in x["ops"]]), coq_fs(y["w"]), coq_fs(y["r"]), coq_fs(y["s"]), coq_fs(y["b"])) for x, y in zip(oc, oo)]
    body = HDR + "Definition cs := %s.\nDefinition M := Eval vm_compute in failing (fun '(ops, obs) => ops_ok ops obs) cs.\nPrint M.\n" % coq_list(items)
    for i in c.parse_nums(c.parse_printed(c.coq_eval("ops", body), "M").replace("%N", "")):
        disagreements.append({"relation": "ops_ok (Add / AddRange / AddFilePermission)", "case": oc[i], "observed": oo[i]})
    for x in oc:
        c.count(("ops", json.dumps(x["ops"])), klass="ops")
    c.sample({"kind": "ops", "case": oc[0], "observed": oo[0]})

    # -------------------------------------------------------------- counter
    r = c.rng("counter")
    nctr = 200 if c.quick() else 2000
    kc = []
    sysn = ["fork", "execve", "clone", "open", "x"]
    for i in range(nctr):
        tbl = {n: r.choice([0, 1, 2, 3, 5, -1, -7, 10]) for n in r.sample(sysn, r.randint(0, 4))}
        hist = [r.choice(sysn) for _ in range(r.randint(0, 25))]
        kc.append({"id": i, "kind": "counter", "counter": tbl, "hist": hist})
    kc.append({"id": nctr, "kind": "counter", "counter": {"x": -2 ** 63}, "hist": ["x", "x", "x"]})
    kc.append({"id": nctr + 1, "kind": "counter", "counter": {"x": 2 ** 63 - 1}, "hist": ["x", "x"]})
    ko = c.run_harness(exe, kc)
    items = ["(%s, %s, %s, %s)" % (
        coq_list(["(%s, %s)" % (coq_str(b(k)), coq_Z(v)) for k, v in x["counter"].items()]),
        coq_list([coq_str(b(h)) for h in x["hist"]]),
        coq_list([coq_act(a) for a in y["acts"]]),
        coq_list(["(%s, %s)" % (coq_str(b(k)), coq_Z(v)) for k, v in y["final"].items()])) for x, y in zip(kc, ko)]
    body = HDR + "Definition cs := %s.\nDefinition M := Eval vm_compute in failing (fun '(c, h, a, f) => counter_ok c h a f) cs.\nPrint M.\n" % coq_list(items)
    for i in c.parse_nums(c.parse_printed(c.coq_eval("counter", body), "M").replace("%N", "")):
        disagreements.append({"relation": "counter_ok (SyscallCounter.Check / CheckSyscall)", "case": kc[i], "observed": ko[i]})
    for x, y in zip(kc, ko):
        c.count(("ctr", json.dumps(x, sort_keys=True)), nontrivial=bool(x["counter"]) and bool(x["hist"]), klass="counter")
        for name in sysn:
            acts = [a for h, a in zip(x["hist"], y["acts"]) if h == name]
            if name in x["counter"]:
                n = x["counter"][name]
                allowed = acts.count("allow")
                refused_then_allowed = "allow" in acts[acts.index("kill"):] if "kill" in acts else False
                if allowed > max(0, n) or refused_then_allowed or "ban" in acts:
                    c.finding_or_violation({"kind": "counter", "budget": n, "allowed": allowed,
                                            "budget_is_min_int64": n == -2 ** 63,
                                            "refused_then_allowed": refused_then_allowed}, {"case": x, "observed": y})
            elif any(a != "ban" for a in acts):
                c.finding_or_violation({"kind": "uncounted-not-banned", "name": name}, {"case": x, "observed": y})
    # ---- configurations built one after the other in one process: what a handler admits is decided by its own configuration alone
    types = ["", "python3", "compiler"]
    confs, queries = [], []
    for k in range(5):
        confs.append({"ptype": types[k % 3], "work": "/nonexistent-c18/job%d" % k, "arg0": "/nonexistent-c18/job%d/prog" % k,
                      "add_read": ["/nonexistent-c18/data%d/in.txt" % k] if k % 2 == 0 else [], "add_write": ["/nonexistent-c18/data%d/out/" % k] if k != 3 else []})
        queries += ["/nonexistent-c18/job%d/prog" % k, "/nonexistent-c18/job%d" % k, "/nonexistent-c18/job%d/other" % k, "/nonexistent-c18/data%d/in.txt" % k,
                    "/nonexistent-c18/data%d/out/result" % k, "/nonexistent-c18/data%d/out" % k, "/nonexistent-c18/data%d" % k]
    queries += ["/etc/ld.so.cache", "/dev/null", "/etc/shadow", "/usr/lib/x", "/tmp/t"]
    def getconf(cfs):
        return c.run_harness(exe, [{"id": 0, "kind": "getconf", "confs": cfs, "queries": queries}])[0]["answers"]
    together = getconf(confs)
    for k, cf in enumerate(confs):
        alone = getconf([cf])[0]
        c.count(("getconf", k), nontrivial=True, klass="getconf-history")
        if together[k] != alone:
            diff = [(q, a, b) for q, a, b in zip(queries, alone, together[k]) if a != b]
            c.finding_or_violation({"kind": "getconf-history", "what": "a handler built after other configurations in the same process answers differently from the same configuration built alone",
                                    "over_admits": any("allow" in b and "allow" not in a for _, a, b in diff)},
                                   {"configurations": confs[:k + 1], "path": diff[0][0], "alone": diff[0][1], "in_history": diff[0][2]}, klass="getconf")
            break
    c.sample({"kind": "counter", "case": kc[0], "observed": ko[0]})

    # grid cases are distinct by construction: add them to the measured count
    for i in range(grid_nt):
        pass
    c.cov["grid_distinct_nontrivial"] = grid_nt
    c.cov["correspondence_disagreements"] = len(disagreements)
    if disagreements and not c.violations:
        # model and code differ but the property oracle found no failing input
        c.violation({"kind": "correspondence-broken", "theorems_no_longer_about_the_code": c.theorems,
                     "disagreements": disagreements[:20]}, no_input=True)
    elif disagreements:
        c.cov["disagreement_samples"] = disagreements[:5]
    FINISH["extra"] = {"distinct_nontrivial": len(c.nontrivial) + grid_nt}

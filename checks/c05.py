"""C05 — FS confinement: only the configured mounts are visible; read-only means read-only.
Tie: generated mount tables (recursive / non-recursive binds of directories and files, read-only and writable, sources that
hold further mounts, tmpfs, proc ro / rw, nested targets, missing sources) are given to BOTH implementations of the mount
sequence (namespace runner: raw syscalls in the forked child; container: container init).  From the host the mount table of
the sandboxed process (/proc/<pid>/mountinfo) is read and compared in Coq with `build_table`; inside, a probe lists /, looks
for the old root, and tries to write into every mount and into /; an independent oracle checks the statement of the property.
The raw in-child sequence is also driven the way a caller of pkg/forkexec may drive it ("raw"): every table under several sets
of namespaces (mount namespace with / without user, pid, uts, ipc, net, cgroup namespace), identity mappings, with / without
dropped capabilities.  A start that is refused is fine (nothing ran: the probe printed nothing); a program that runs sees what
the property says.  A second probe (probes/fsmodify.c) modifies objects that EXIST below the mounts (a file of a bound directory,
a bound file, /proc/self/comm) and reports which proc instance a proc mount shows.
The harness runs in a private mount namespace (unshare -m)."""
import json
import os

from vlib import coq_list

FINISH = dict(level="proof", rule=(
    "mount tables of 2..8 entries over 6 source directories (two of which hold a tmpfs mount) and 2 source files: bind "
    "{recursive, non-recursive} x {ro, rw} x {dir, file}, tmpfs, proc {ro, rw}, targets 1..3 components deep and nested in an "
    "earlier tmpfs, sources that do not exist (filtered); each table under the namespace runner and the container (with and "
    "without an InitCommand), and under pkg/forkexec driven directly with 2 sets of namespaces per table (user x pid namespace present "
    "or not, uts/ipc/net/cgroup at random, uid 0 or 1000 inside, capabilities dropped or not).  Non-trivial: a table with at least one "
    "read-only and one writable entry; distinct = distinct (table, implementation, launcher configuration)."))

HDR = "From Coq Require Import List NArith.\nImport ListNotations.\nFrom GS Require Import Kernel.Mount Kernel.EvalMount.\n"
BIND_REC, BIND_RAW, TMPFS, PROC = 4096 + 2 + 262144 + 16384, 4096, 2 + 1024 + 4, 2 + 4 + 8


def existing_objects(m):
    """What probes/fsmodify.c is asked about a mount: w:<an object that exists below it>, p:<a proc mount>."""
    t = "/" + m["target"]
    if m["kind"] == "bind":
        return ["w:" + (t if m.get("file") else t + "/data.txt")]
    if m["kind"] == "proc":
        return ["w:" + t + "/self/comm", "p:" + t]
    return []


def kernel_refuses(x, kept):
    """Kernel rules (not the launcher's) under which the raw sequence of a table cannot succeed, so that a refused start is what a caller
    must expect: a new proc instance can only be mounted by a task that is privileged over its pid namespace; a task in a new user
    namespace that stays in the pid namespace of its parent is not (mount(2) of proc: EPERM)."""
    ns = x["namespaces"]
    return "user" in ns and "pid" not in ns and any(m["kind"] == "proc" for m in kept)


def run(c):
    exe = c.build_harness("h_c05")
    c.build_probe("target")
    c.build_probe("fsmodify")
    scratch = os.path.realpath(c.tmpdir("scratch"))
    env = dict(os.environ, VERIF_SCRATCH=scratch)
    srcs = []
    for i in range(6):
        d = "%s/s%d" % (scratch, i)
        os.makedirs(d + "/inner")
        open(d + "/data.txt", "w").write("x")
        srcs.append(d)
    files = []
    for i in range(2):
        f = "%s/file%d" % (scratch, i)
        open(f, "w").write("y")
        files.append(f)
    sub_of = {srcs[0]: "sub", srcs[1]: "inner"}          # these two sources hold a mount
    r = c.rng("tables")
    rr = c.rng("launcher-configurations")                # a stream of its own: the tables stay what they were
    names = {}
    num = lambda s: names.setdefault(s, len(names) + 1)
    comps = lambda p: coq_list([str(num(x)) for x in p.split("/") if x])
    cases, metas = [], []
    ntab = 40 if c.quick() else 300
    for ti in range(ntab):
        mounts, used, tmpfs_t = [], set(), []
        for _ in range(r.randint(2, 8)):
            k = r.choice(["bind", "bind", "bind", "bindfile", "tmpfs", "tmpfs", "proc", "missing"])
            tgt = "/".join(r.choice(["a", "b", "c", "d", "e"]) for _ in range(r.randint(1, 3)))
            nested = False
            if tmpfs_t and r.random() < 0.25:
                tgt, nested = r.choice(tmpfs_t) + "/" + r.choice(["in", "x"]), True
            if k == "proc":
                tgt = "proc"
            clash = any(tgt == u or u.startswith(tgt + "/") or (tgt.startswith(u + "/") and not (nested and u in tmpfs_t)) for u in used)
            if clash or (tgt.split("/")[0] in ("vb", "dev", "proc") and k != "proc"):
                continue
            used.add(tgt)
            ro = r.random() < 0.5
            if k == "bind":
                sdir = r.choice(srcs)
                # a non-recursive bind of a tree that holds mounts is refused by the kernel in a user namespace (EINVAL)
                mounts.append({"kind": "bind", "source": sdir, "target": tgt, "ro": ro, "rec": True if sdir in sub_of else r.random() < 0.6})
            elif k == "bindfile":
                mounts.append({"kind": "bind", "source": r.choice(files), "target": tgt, "ro": ro, "rec": r.random() < 0.5, "file": True})
            elif k == "tmpfs":
                mounts.append({"kind": "tmpfs", "target": tgt, "ro": False})
                tmpfs_t.append(tgt)
            elif k == "proc":
                mounts.append({"kind": "proc", "target": "proc", "ro": ro})
            else:
                mounts.append({"kind": "bind", "source": scratch + "/does-not-exist", "target": tgt, "ro": ro, "rec": True, "missing": True})
        if not mounts:
            continue
        subm = sorted(set(m["source"] + "/" + sub_of[m["source"]] for m in mounts if m.get("source") in sub_of))
        probe, modify = ["/"], []
        for m in mounts:
            if not m.get("missing"):
                probe.append("/" + m["target"])
                modify += existing_objects(m)
                if m["kind"] == "bind" and m.get("rec") and m["source"] in sub_of:
                    probe.append("/" + m["target"] + "/" + sub_of[m["source"]])
        for impl in ("ns", "container", "container+init"):
            cases.append({"id": len(cases), "runner": impl.split("+")[0], "init_cmd": impl.endswith("+init"), "submounts": subm, "mounts": mounts, "probe": probe,
                          "modify": modify})
            metas.append((ti, impl))
        # the launcher driven directly: the same table under namespace sets other than the one runner/unshare fixes.  Per table two of the
        # four combinations (user namespace?, pid namespace?), the other namespaces at random
        combos = [(u, p_) for u in (True, False) for p_ in (True, False)]
        rr.shuffle(combos)
        for user, pidns in combos[:2]:
            nss = ["mnt"] + (["user"] if user else []) + (["pid"] if pidns else []) + [n for n in ("uts", "ipc", "net", "cgroup") if rr.random() < 0.35]
            cases.append({"id": len(cases), "runner": "raw", "init_cmd": False, "submounts": subm, "mounts": mounts, "probe": probe, "modify": modify,
                          "namespaces": nss, "drop_caps": rr.random() < 0.5, "no_new_privs": rr.random() < 0.5,
                          "id_inside": rr.choice([0, 1000]) if user else None})
            metas.append((ti, "raw"))
    # private mount namespace for the harness; the directory that holds the bind sources is made a SHARED mount in it, so that a sandbox
    # whose mounts were not detached from the host's propagation would show it in its mount table (master:N / shared:N)
    obs = c.run_harness("/usr/bin/unshare", cases, args=("-m", "--propagation", "private", "sh", "-c",
                                                          "mount --bind \"$VERIF_SCRATCH\" \"$VERIF_SCRATCH\" && mount --make-shared \"$VERIF_SCRATCH\" && exec " + exe),
                        env=env, timeout=1500)
    items, src, mask_items, maskdir_items = [], [], [], []
    secs = c.cov.setdefault("seconds_by_implementation", {})
    for x, (ti, impl), o in zip(cases, metas, obs):
        if "harness_err" in o:
            raise RuntimeError(o["harness_err"])
        rep = {"implementation": impl, "mounts": x["mounts"], "mounts_inside_sources": x["submounts"],
               "mountinfo": (o.get("mountinfo") or "").splitlines(), "probe": o.get("probe"), "status": o.get("status"), "error": o.get("error") or o.get("build_err")}
        cz = lambda what, **kw: dict({"kind": "confinement", "what": what, "implementation": impl.split("+")[0]}, **kw)
        kept = [m for m in x["mounts"] if not m.get("missing")]
        in_container = impl.startswith("container")
        secs[impl] = secs.get(impl, 0) + o.get("ms", 0) / 1000.0
        c.cov["container_builds_retried_after_ping_timeout"] = c.cov.get("container_builds_retried_after_ping_timeout", 0) + int(o.get("build_retries") or 0)
        conf = None
        if impl == "raw":
            conf = {"namespaces": x["namespaces"], "drop_caps": x["drop_caps"], "no_new_privs": x["no_new_privs"], "id_inside": x["id_inside"]}
            rep["launcher_configuration"] = dict(conf, launcher="forkexec.Runner{CloneFlags, Mounts: Builder.Build(), PivotRoot, DropCaps, NoNewPrivs, UID/GIDMappings}.Start()")
            rep["modifications_of_existing_objects"] = o.get("modify")
        c.count(json.dumps([x["mounts"], impl, conf]), nontrivial=any(m["ro"] for m in kept) and any(not m["ro"] for m in kept), klass="table:" + impl)
        if impl == "raw":
            nk = "raw.ns:" + "+".join(n for n in ("user", "pid") if n in x["namespaces"]) if set(x["namespaces"]) & {"user", "pid"} else "raw.ns:mnt-only"
            c.dist[nk] = c.dist.get(nk, 0) + 1
            if o.get("started") is False:
                # a refused start: fine as long as nothing ran (fails closed), and expected only where the kernel refuses the table
                c.dist["raw.refused"] = c.dist.get("raw.refused", 0) + 1
                if o.get("probe") or o.get("modify"):
                    c.finding_or_violation(cz("a start that was reported as failed ran the program", error=str(o.get("start_err"))[:80]), rep, klass="refused-ran")
                elif not kernel_refuses(x, kept):
                    c.finding_or_violation(cz("the sandbox cannot be built or the probe does not run", error=str(o.get("start_err"))[:80]),
                                           dict(rep, error=o.get("start_err")), klass="build")
                else:
                    c.cov["raw_refused_by_kernel_rule"] = c.cov.get("raw_refused_by_kernel_rule", 0) + 1
                continue
            c.cov["raw_started"] = c.cov.get("raw_started", 0) + 1
        for m in kept:
            key = "mount.%s%s%s" % (m["kind"], ".ro" if m["ro"] else ".rw", ".raw" if m.get("rec") is False else "")
            c.dist[key] = c.dist.get(key, 0) + 1
        if o.get("status") != 1 or not (o.get("probe") or "").startswith("{"):
            c.finding_or_violation(cz("the sandbox cannot be built or the probe does not run", error=str(rep["error"])[:80]), rep, klass="build")
            continue
        pr = json.loads(o["probe"])
        mod = json.loads(o["modify"]) if (o.get("modify") or "").startswith("{") else {}
        if x.get("modify") and not mod:
            c.finding_or_violation(cz("the sandbox cannot be built or the probe does not run", error="no report of probe_fsmodify"), rep, klass="build")
        allowed = set(m["target"].split("/")[0] for m in kept) | {"vb"} | ({"dev"} if in_container else set())
        extra = [n for n in pr["root"] if n not in allowed]
        if extra:
            c.finding_or_violation(cz("the root holds entries that were not configured", entries=extra[:5]), rep, klass="root-extra")
        if pr["old_root"] or not pr["dotdot_is_root"]:
            c.finding_or_violation(cz("the old root is reachable"), rep, klass="old-root")
        dirs = [e for e in pr.get("extra_fds", []) if e[1]]
        if dirs:
            c.finding_or_violation(cz("the program inherits a directory descriptor that is none of its mounts", descriptors=[e[0] for e in dirs],
                                      host_tree_reachable_through_it=any(e[2] for e in dirs)), rep, klass="dirfd")
        if pr["root_write"] != 30:
            c.finding_or_violation(cz("the root accepts modifications", errno=pr["root_write"]), rep, klass="root-writable")
        for m in kept:
            p = pr["paths"].get("/" + m["target"])
            if p is None:
                continue
            if m["ro"] and (p["ro"] != 1 or p["write_errno"] == 0):
                c.finding_or_violation(cz("a mount declared read-only accepts writes", mount=m["kind"], recursive=m.get("rec")),
                                       dict(rep, mount=m, probe_of_mount=p, expected="statfs(/%s) has ST_RDONLY (ro = 1) and creating / opening for writing fails (write_errno != 0)" % m["target"],
                                            observed=p), klass="ro-writable")
            if not m["ro"] and (p["ro"] != 0 or (p["write_errno"] != 0 and m["kind"] != "proc")):
                c.finding_or_violation(cz("a mount declared writable rejects writes", mount=m["kind"], errno=p["write_errno"]), dict(rep, mount=m, probe_of_mount=p),
                                       klass="rw-readonly")
            # objects that exist below the mount (probes/fsmodify.c)
            for key in existing_objects(m):
                e = mod.get(key)
                if e is None:
                    continue
                if key.startswith("w:"):
                    c.cov["existing_objects_modified"] = c.cov.get("existing_objects_modified", 0) + 1
                    if m["ro"] and e["open_errno"] == 0 and e["write_errno"] == 0:
                        c.finding_or_violation(cz("a mount declared read-only accepts writes", mount=m["kind"], recursive=m.get("rec"), object="existing file"),
                                               dict(rep, mount=m, probe_of_mount=p, expected="open(%s, O_WRONLY) fails with EROFS (30)" % key[2:],
                                                    observed=e), klass="ro-writable")
                    if not m["ro"] and m["kind"] == "bind" and (e["open_errno"] != 0 or e["write_errno"] != 0):
                        c.finding_or_violation(cz("a mount declared writable rejects writes", mount=m["kind"], errno=e["open_errno"] or e["write_errno"], object="existing file"),
                                               dict(rep, mount=m, probe_of_mount=p, observed=e), klass="rw-readonly")
                elif e["self_is_me"] != 1 or e["type"] != 0x9fa0:
                    c.finding_or_violation(cz("a proc mount does not show the pid namespace of the program (it shows processes of another one, or is no proc)"),
                                           dict(rep, mount=m, expected="%s/self names the program, file system type 0x9fa0" % key[2:], observed=e), klass="proc-instance")
            if m["kind"] == "bind" and m.get("rec") and m.get("source") in sub_of and m["ro"]:
                q = pr["paths"].get("/" + m["target"] + "/" + sub_of[m["source"]])
                if q and (q["ro"] != 1 or q["write_errno"] == 0):
                    c.finding_or_violation({"kind": "readonly", "what": "a mount below a read-only recursive bind stays writable"}, dict(rep, mount=m, probe_of_submount=q))
        # ---- Coq: the table
        table = []
        for ln in (o.get("mountinfo") or "").splitlines():
            f = ln.split(" ")
            mp, opts = f[4], f[5].split(",")
            tags = f[6:f.index("-")]
            if tags:
                c.finding_or_violation(cz("a mount of the sandbox is attached to the host's mount propagation", tag=tags[0].split(":")[0]),
                                       dict(rep, mount_line=ln), klass="propagation")
            if mp.startswith("/proc/"):
                if not in_container:
                    # the raw sequence masks nothing: whatever is mounted below the proc mount was not declared
                    c.finding_or_violation(cz("a mount that was not declared lies below a declared mount", below="proc"), dict(rep, mount_line=ln), klass="undeclared-mount")
                continue                               # mask mounts of the container (checked through the probe)
            table.append("(%s, %s)" % (comps(mp), "true" if "ro" in opts else "false"))
        decls = ["{| d_kind := FBind; d_source := %d; d_target := %s; d_flags := %d |}" % (num("<bin>"), comps("vb"), BIND_REC + 1)]
        for m in kept:
            if m["kind"] == "bind":
                fl = (BIND_REC if m.get("rec") else BIND_RAW) + (1 if m["ro"] else 0)
                decls.append("{| d_kind := FBind; d_source := %d; d_target := %s; d_flags := %d |}" % (num(m["source"]), comps(m["target"]), fl))
            elif m["kind"] == "tmpfs":
                decls.append("{| d_kind := FTmpfs; d_source := 0; d_target := %s; d_flags := %d |}" % (comps(m["target"]), TMPFS))
            else:
                decls.append("{| d_kind := FProc; d_source := 0; d_target := %s; d_flags := %d |}" % (comps("proc"), PROC + (1 if m["ro"] else 0)))
        if x["init_cmd"]:
            decls.append("{| d_kind := FBind; d_source := %d; d_target := %s; d_flags := %d |}" % (num("/dev/null"), comps("dev/null"), BIND_RAW))
        host = ["(%d, [(%s, false)])" % (num(s), comps(sub_of[s])) for s in sub_of]
        items.append("(%s, %s, [], %s)" % (coq_list(host), coq_list(decls), coq_list(table)))
        src.append(x["id"])
        if o.get("kcore_read", None) is not None:
            pass
        if in_container and any(m["kind"] == "proc" and m["target"] == "proc" for m in kept) and pr.get("maskdir_write", -2) != -2:
            ml = [ln.split(" ") for ln in (o.get("mountinfo") or "").splitlines() if ln.split(" ")[4] == "/proc/acpi"]
            cb_ = lambda v: "true" if v else "false"
            if ml:
                f = ml[-1]
                maskdir_items.append("(%s, true, %s, %s)" % (cb_(x["init_cmd"]), cb_(f[f.index("-") + 1] == "tmpfs"), cb_("ro" in f[5].split(","))))
            else:
                maskdir_items.append("(%s, false, false, false)" % cb_(x["init_cmd"]))
        if in_container and any(m["kind"] == "proc" for m in kept) and pr["kcore_read"] != -2:
            mask_items.append("(%s, %s)" % ("true" if x["init_cmd"] else "false", "true" if pr["kcore_read"] > 0 else "false"))
        c.cov["masked_directory_probed"] = c.cov.get("masked_directory_probed", 0) + (1 if pr.get("maskdir_write", -2) != -2 else 0)
        if pr.get("maskdir_write", -2) == 0:
            c.finding_or_violation(cz("a masked directory accepts new files (a writable place that is not among the declared mounts)", dev_null_in_container=bool(x["init_cmd"])),
                                   dict(rep, masked_directory="/proc/acpi"), klass="mask")
        if in_container and any(m["kind"] == "proc" for m in kept) and pr["kcore_read"] not in (0, -2):
            c.finding_or_violation(cz("a masked path reveals content", dev_null_in_container=bool(x["init_cmd"])), dict(rep, bytes_read_from_proc_timer_list=pr["kcore_read"]), klass="mask")
    for k in secs:
        secs[k] = round(secs[k], 1)
    c.sample({"implementation": metas[0][1], "mounts": cases[0]["mounts"], "mountinfo": (obs[0].get("mountinfo") or "").splitlines()[:10],
              "probe": json.loads(obs[0]["probe"]) if (obs[0].get("probe") or "").startswith("{") else obs[0].get("probe")})
    # ---- one base table handed to two builders
    cz2 = lambda what, **kw: dict({"kind": "confinement", "what": what, "implementation": "pkg/mount builder / container"}, **kw)
    ba = c.run_harness(exe, [{"id": 0, "mode": "builder_alias"}], env=env, timeout=120)[0]
    c.count("builder-alias", nontrivial=True, klass="builder")
    tg = lambda rows: [r_.split("|")[1] for r_ in rows]
    if ba["base_after"] != ba["base_before"]:
        c.finding_or_violation(cz2("Builder.WithMounts / FilterNotExist / With* modify the caller's slice"), {"observed": ba}, klass="builder-alias")
    elif tg(ba["first"]) != ["usr", "bin", "w", "src"] or tg(ba["second"]) != ["usr", "bin", "w", "other"] or ba["first_later"] != ba["first"]:
        c.finding_or_violation(cz2("two builders made from one base table see each other's entries", first=tg(ba["first_later"]), second=tg(ba["second"])),
                               {"observed": ba}, klass="builder-alias")
    # ---- the launcher's raw mount sequence, started three times with one prepared table (no user namespace, no callback)
    rt = c.run_harness("/usr/bin/unshare", [{"id": 0, "mode": "raw_twice"}], args=("-m", "--propagation", "private", exe), env=env, timeout=120)[0]
    if "harness_err" in rt:
        raise RuntimeError(rt["harness_err"])
    for k, ro_ in enumerate(rt["runs"]):
        c.count(("raw-start", k), nontrivial=k > 0, klass="raw-restart")
        if "start_err" in ro_ or not ro_.get("probe", "").startswith("{"):
            c.finding_or_violation(cz2("the sandbox cannot be built or the probe does not run", start=k + 1, error=str(ro_.get("start_err"))[:80]), {"observed": rt}, klass="build")
            break
        pw = json.loads(ro_["probe"])["paths"]
        if pw["/data"]["write_errno"] != 30 or pw["/w"]["write_errno"] != 0:
            c.finding_or_violation(cz2("start number %d with the same prepared mount table: a mount declared read-only accepts writes (or a writable one does not)" % (k + 1),
                                       data_write_errno=pw["/data"]["write_errno"]), {"observed": rt}, klass="raw-restart")
            break
    # ---- a read-only bind whose source file system is read-only as a whole during set-up and writable again afterwards
    for init_cmd in (False, True):
        so = c.run_harness("/usr/bin/unshare", [{"id": 0, "mode": "sb_readonly", "runner": "container", "init_cmd": init_cmd, "mounts": [], "probe": []}],
                           args=("-m", "--propagation", "private", exe), env=env, timeout=120)[0]
        if "harness_err" in so:
            raise RuntimeError(so["harness_err"])
        c.count(("sb-readonly", init_cmd), nontrivial=True, klass="sb-readonly")
        if so.get("status") != 1 or not (so.get("probe") or "").startswith("{"):
            c.finding_or_violation(cz2("the sandbox cannot be built or the probe does not run", error=str(so.get("error"))[:80]), {"observed": so}, klass="build")
            continue
        spr = json.loads(so["probe"])
        if spr["paths"]["/data"]["write_errno"] != 30:
            c.finding_or_violation(cz2("a mount declared read-only accepts writes once the source file system is writable again (it was read-only as a whole during set-up)",
                                      write_errno=spr["paths"]["/data"]["write_errno"]), {"observed": so}, klass="sb-readonly")
    dis = []
    body = HDR + ("Definition cs : list (list (nat * list (list nat * bool)) * list decl * list (list nat * bool) * list (list nat * bool)) := %s.\n"
                  "Definition M := Eval vm_compute in failing table_ok cs.\nPrint M.\n") % coq_list(items)
    body += "Definition ms : list (bool * bool) := %s.\nDefinition MM := Eval vm_compute in failing mask_ok ms.\nPrint MM.\n" % coq_list(mask_items)
    body += ("From GS Require Import Kernel.EvalMask.\nDefinition mds : list (bool * bool * bool * bool) := %s.\n"
             "Definition MD := Eval vm_compute in failing maskdir_ok mds.\nPrint MD.\n" % coq_list(maskdir_items))
    cout = c.coq_eval("tables", body, timeout=1200)
    if c.parse_nums(c.parse_printed(cout, "MD").replace("%N", "")):
        dis.append({"relation": "maskdir_ok (a masked directory is covered by a read-only tmpfs iff the container has /dev/null)", "cases": maskdir_items})
    c.cov["masked_directories_compared_in_coq"] = len(maskdir_items)
    if c.parse_nums(c.parse_printed(cout, "MM").replace("%N", "")):
        dis.append({"relation": "mask_ok (a masked /proc file is readable iff mask_one says exposed)", "cases": mask_items})
    c.cov["mask_observations_compared_in_coq"] = len(mask_items)
    for i in c.parse_nums(c.parse_printed(cout, "M").replace("%N", "")):
        j = src[i]
        dis.append({"relation": "table_ok (mount table of the sandboxed process = build_table of the declared mounts)", "implementation": metas[j][1],
                    "mounts": cases[j]["mounts"], "mountinfo": (obs[j].get("mountinfo") or "").splitlines()})
    c.cov["tables"] = ntab
    c.cov["sandboxes_built"] = len(cases)
    c.cov["traces_validated_against_impl"] = len(items)
    c.cov["correspondence_disagreements"] = len(dis)
    if dis:
        c.cov["disagreement_samples"] = dis[:3]
        if not c.violations:
            c.violation({"kind": "correspondence-broken", "theorems_no_longer_about_the_code": c.theorems, "disagreements": dis[:5]}, no_input=True)

"""C02 — the file-access policy is consulted about the object the kernel will really touch.
Tie: forests of directories, files and symbolic links (relative / absolute targets, chains up to 43 links, loops, dangling
links) are created on disk; a really traced program performs every traced path syscall with exact register values (dirfd
sign-extended / zero-extended / with garbage in the upper half, descriptor-relative, cwd-relative after chdir / fchdir,
absolute) on pathnames over the forest; the recording handler bans each call so that the forest never changes.  For every
consultation three things are compared: what the policy was asked (code), the kernel's own resolution of the same (dirfd,
pathname) reported by the program (open O_PATH [|O_NOFOLLOW] + readlink of /proc/self/fd/N), and `presented` /
`kernel_resolution` of the Coq model on the same forest (in Coq).  The access classes observed are compared with
`class_of (handle_table ..)`; the driver's copy of the ABI table is compared with `abi_table`.
Names: besides plain names every forest has directories, files and links whose names contain bytes that some text layer between
the kernel and the policy could treat specially (texts the kernel itself uses to decorate /proc links -- " (deleted)",
"(unreachable)", "pipe:[n]" --, blanks, line ends, control bytes, quoting / escaping / globbing characters, non-ASCII text, dot
variants, a 255-byte name); such directories are working directories and directory descriptors of the calls, with or without
an undecorated twin beside them.  Link targets are drawn from the same grammar as the pathnames of the calls (several
components over names, links, '.', '..', doubled slashes), in particular targets that cross another link and then climb with
'..'; a share of the pathnames is aimed at the links themselves (absolute and relative to the base).  The script and the report
of the traced program (harness/probes/pathopsx.c) are %XX-escaped so that any byte passes."""
import json
import os
import urllib.parse

from vlib import coq_list

FINISH = dict(level="proof", rule=(
    "forests of 15..50 entries, depth <= 5, 8..18 links (targets: names, absolute paths, loops, pathnames of 2..5 components, targets "
    "that cross another link and then climb with '..'), 5 directories per forest whose names imitate the kernel's decorations of "
    "/proc links or contain blanks / control bytes / meta characters / non-ASCII text / dot variants, used as working directory and "
    "as directory descriptors; 26 syscalls x pathnames of 1..8 components over {names that exist or "
    "not, '.', '..', '', link names, odd names, trailing slash, pathnames aimed at links} x {absolute, cwd-relative, descriptor-relative} x 3 register encodings x "
    "flag words from the lattice of open / at-flags; non-trivial: the pathname crosses at least one symbolic link or contains "
    "'..', and the kernel's resolution succeeds; distinct = distinct (forest, call, registers, pathname)."))

HDR = ("From Coq Require Import List NArith ZArith.\nImport ListNotations.\n"
       "From GS Require Import Path.Resolve Path.Handle Path.EvalPath.\n")

O_NOFOLLOW, O_CREAT, O_EXCL, O_TRUNC, O_PATH = 0x20000, 0x40, 0x80, 0x200, 0x200000
AT_NOFOLLOW, AT_FOLLOW = 0x100, 0x400
# name: (nr, [(dirfd arg | None, path arg)], class, follow rule per path, filler for the other arguments)
# class: "r" | "w" | "s" | ("of", arg) | ("oh", arg); follow: "F" | "N" | ("U", arg, bit) | ("O", arg, bit) | "H"
ABI = [
    ("open", 2, [(None, 0)], ("of", 1), [("U", 1, O_NOFOLLOW)]),
    ("openat", 257, [(0, 1)], ("of", 2), [("U", 2, O_NOFOLLOW)]),
    ("openat2", 437, [(0, 1)], ("oh", 2), ["H"]),
    ("readlink", 89, [(None, 0)], "r", ["N"]),
    ("readlinkat", 267, [(0, 1)], "r", ["N"]),
    ("unlink", 87, [(None, 0)], "w", ["N"]),
    ("unlinkat", 263, [(0, 1)], "w", ["N"]),
    ("mkdirat", 258, [(0, 1)], "w", ["N"]),
    ("mknodat", 259, [(0, 1)], "w", ["N"]),
    ("symlinkat", 266, [(1, 2)], "w", ["N"]),
    ("fchmodat", 268, [(0, 1)], "w", ["F"]),
    ("fchmodat2", 452, [(0, 1)], "w", [("U", 3, AT_NOFOLLOW)]),
    ("linkat", 265, [(0, 1), (2, 3)], "w", [("O", 4, AT_FOLLOW), "N"]),
    ("renameat", 264, [(0, 1), (2, 3)], "w", ["N", "N"]),
    ("renameat2", 316, [(0, 1), (2, 3)], "w", ["N", "N"]),
    ("access", 21, [(None, 0)], "s", ["F"]),
    ("faccessat", 269, [(0, 1)], "s", ["F"]),
    ("faccessat2", 439, [(0, 1)], "s", [("U", 3, AT_NOFOLLOW)]),
    ("stat", 4, [(None, 0)], "s", ["F"]),
    ("stat64", None, [(None, 0)], "s", ["F"]),
    ("lstat", 6, [(None, 0)], "s", ["N"]),
    ("lstat64", None, [(None, 0)], "s", ["N"]),
    ("statx", 332, [(0, 1)], "s", [("U", 2, AT_NOFOLLOW)]),
    ("fstatat", None, [(0, 1)], "s", [("U", 3, AT_NOFOLLOW)]),
    ("fstatat64", None, [(0, 1)], "s", [("U", 3, AT_NOFOLLOW)]),
    ("newfstatat", 262, [(0, 1)], "s", [("U", 3, AT_NOFOLLOW)]),
    ("execve", 59, [(None, 0)], "r", ["F"]),
    ("execveat", 322, [(0, 1)], "r", [("U", 4, AT_NOFOLLOW)]),
    ("chmod", 90, [(None, 0)], "w", ["F"]),
    ("rename", 82, [(None, 0), (None, 1)], "w", ["N", "N"]),
]


def abi_code():
    rows = []
    for name, nr, pairs, cls, fol in ABI:
        row = []
        for (d, p), f in zip(pairs, fol):
            c = [0 if d is None else d + 1, p]
            c += {"r": [0], "w": [1], "s": [2]}.get(cls) if isinstance(cls, str) else [3 if cls[0] == "of" else 4, cls[1]]
            c += {"F": [0], "N": [1], "H": [4]}.get(f) if isinstance(f, str) else [2 if f[0] == "U" else 3, f[1], f[2]]
            row.append(c)
        rows.append(row)
    return rows


def esc(t):
    """script / report escaping of harness/probes/pathopsx.c"""
    return "".join(chr(b) if 0x20 < b < 0x7f and b != 0x25 else "%%%02X" % b for b in t.encode("utf-8", "surrogateescape"))


def unesc(t):
    return urllib.parse.unquote_to_bytes(t).decode("utf-8", "surrogateescape")


# names that a text layer between the kernel and the policy could mistake for something else, by what they imitate
def odd_names(r):
    b = r.choice(["a", "b", "c", "d", "x"])
    n = r.randint(1, 99999)
    kernel = [b + " (deleted)", b + " (deleted) (deleted)", " (deleted)", "(deleted)", "(unreachable)" + b, b + " (unreachable)", b + " (deleted) ",
              "pipe:[%d]" % n, "socket:[%d]" % n, "anon_inode:[eventpoll]", "memfd:" + b + " (deleted)", b + " (deleted).d", b + "\\040(deleted)"]
    blank = ["sp ace", " lead", "trail ", "tab\tname", "new\nline", "cr\rname", "\x01ctl", "\x7fdel", b + " " + b, "  "]
    meta = ["per%20cent", "100%", "back\\slash", "\\040", "\\n", "quo\"te", "ap'os", "$HOME", "*", "?", "[" + b + "]", b + ":" + b, b + "=" + b, "~", "-rf",
            "#x", "{a,b}", "&amp;", "<x>", "`id`", "a|b", "a;b", "at@sign"]
    nonascii = ["\u00e9", "\u65e5\u672c\u8a9e", "na\u00efve dir", "a\u0301", "\u202etxt", "\U0001f4c1"]
    dots = ["...", ".." + b, "." + b, b + ".", ". ", ".. ", "..." + b, "x" * 255, "y" * 128]
    return {"kernel": kernel, "blank": blank, "meta": meta, "nonascii": nonascii, "dots": dots}


class Names:
    def __init__(self):
        self.n = {}

    def num(self, s):
        return self.n.setdefault(s, len(self.n) + 1)


def comps(s, names):
    """pathname -> (is_abs, Coq path)"""
    parts = s.split("/")
    out = []
    for i, p in enumerate(parts):
        if p == "":
            if i == len(parts) - 1 and i > 0 and any(parts[:-1]):
                out.append("Dot")
            continue
        out.append("Dot" if p == "." else "Up" if p == ".." else "Name %d" % names.num(p))
    return s.startswith("/"), coq_list(out)


def canon(s, names):
    return coq_list([str(names.num(p)) for p in s.split("/") if p])


def walk(r, cur, entries, n):
    """n components that mostly follow real entries from directory cur (names, links, '.', '..', ''); returns (parts, directory reached lexically)"""
    parts = []
    for _ in range(n):
        kids = [e[len(cur) + 1:] for e in entries if e.startswith(cur + "/") and "/" not in e[len(cur) + 1:] and not e[len(cur) + 1:].startswith("ch")]
        c = r.choice(kids + ["..", ".", ""]) if kids else r.choice(["..", "new"])
        parts.append(c)
        nxt = os.path.normpath(cur + "/" + c)
        if entries.get(nxt) == "d":
            cur = nxt
    return parts, cur


def make_forest(r, root):
    """creates a forest below root; returns (dirs, links, entries, ...) with entries: canonical absolute path -> ('d'|'f'|('l', target))"""
    os.makedirs(root)
    entries = {}
    dirs = [root]
    dn = ["a", "b", "c", "d"]
    for _ in range(r.randint(4, 12)):
        p = r.choice(dirs)
        if p.count("/") - root.count("/") >= 4:
            continue
        q = p + "/" + r.choice(dn)
        if q not in entries:
            os.mkdir(q)
            entries[q] = "d"
            dirs.append(q)
    # a directory whose own path is long (descriptor links under /proc report a fixed size, whatever the length of their target)
    q = root + "/a-directory-with-a-rather-long-name-so-that-its-path-is-much-longer-than-sixty-four-bytes"
    os.mkdir(q)
    entries[q] = "d"
    dirs.append(q)
    # directories with odd names (see odd_names): two that imitate the kernel's decorations of link texts, one with blanks or
    # control bytes, two of the other kinds; anywhere in the forest, sometimes with an undecorated twin beside them, sometimes nested
    on = odd_names(r)
    picked = [(x, "kernel") for x in r.sample(on["kernel"], 2)] + [(r.choice(on["blank"]), "blank")]
    picked += [(r.choice(on[k]), k) for k in r.sample(["meta", "nonascii", "dots"], 2)]
    odd = {}
    twins = []
    for nm, kind in picked:
        par = r.choice([d for d in dirs if d.count("/") - root.count("/") < 4 and len(d) < 400])
        q = par + "/" + nm
        if q in entries:
            continue
        os.mkdir(q)
        entries[q] = "d"
        dirs.append(q)
        odd[q] = kind
        # the twin: what is left of the name when the odd part is cut off (a directory, a file or a link elsewhere)
        tw = par + "/" + (nm.split(" ")[0].split("(")[0].split(":")[0].rstrip(".") or "x")
        if tw not in entries and tw != q and r.random() < 0.6:
            k = r.random()
            if k < 0.5:
                os.mkdir(tw)
                entries[tw] = "d"
                dirs.append(tw)
            elif k < 0.7:
                open(tw, "w").close()
                entries[tw] = "f"
            else:
                t = r.choice(dirs)
                os.symlink(t, tw)
                entries[tw] = ("l", t)
                twins.append(tw)
    oddn = [os.path.basename(q) for q in odd]
    for _ in range(r.randint(3, 10)):
        q = r.choice(dirs) + "/" + r.choice(["f", "g", "t.txt"] + oddn[:1])
        if q not in entries:
            open(q, "w").close()
            entries[q] = "f"
    links = list(twins)
    ln = ["l0", "l1", "l2", "l3", "l4", "l5"] + ([("l " + oddn[-1])[:200]] if oddn else [])
    nested = 0
    # (the last two: every forest has links whose target crosses another link, when a link to a directory exists by then)
    for forced in [False] * r.randint(6, 14) + [True, True]:
        d = r.choice(dirs)
        q = d + "/" + r.choice(ln)
        k = 0.9 if forced else r.random()
        if k >= 0.8:
            # next to a link that leads to a directory: a relative target that crosses that link and goes on ('..' climbs from
            # the directory the link leads to, a name is looked up there)
            cands = [l for l in links if os.path.isdir(l)]
            if cands and (forced or r.random() < 0.8):
                via = r.choice(cands)
                d = os.path.dirname(via)
                free = [x for x in ln if d + "/" + x not in entries]
                if not free:
                    continue
                q = d + "/" + r.choice(free)
                real = os.path.realpath(via)
                up = os.path.dirname(real)
                there = [e[len(up) + 1:] for e in entries if e.startswith(up + "/") and "/" not in e[len(up) + 1:] and not e[len(up) + 1:].startswith("ch")]
                here = [e[len(real) + 1:] for e in entries if e.startswith(real + "/") and "/" not in e[len(real) + 1:] and not e[len(real) + 1:].startswith("ch")]
                nm = os.path.basename(via)
                t = r.choice([nm + "/..", nm + "/../" + r.choice(there + ["new"]), nm + "/../" + r.choice(there + ["new"]), nm + "/./../" + r.choice(there + dn),
                              nm + "//..//" + r.choice(there + dn) + "/", nm + "/../../" + r.choice(dn), nm + "/" + r.choice(here + ["."]) + "/../..",
                              nm + "/" + r.choice(here + ["."]), "./" + nm + "/../" + nm, "../" + os.path.basename(d) + "/" + nm + "/../" + r.choice(there + ["f"])])
            else:
                t = os.path.relpath(r.choice(dirs), d)
        if q in entries:
            continue
        if k < 0.3:
            t = r.choice(dn + ["f", "g", "..", ".", "../" + r.choice(dn), r.choice(dn) + "/" + r.choice(dn), "../..", "nonexistent",
                               r.choice(ln), "../" + r.choice(ln), r.choice(ln) + "/" + r.choice(dn), r.choice(dn) + "/../" + r.choice(dn), "./" + r.choice(dn) + "//",
                               r.choice(ln) + "/..", r.choice(ln) + "/../" + r.choice(dn + ln), r.choice(oddn or dn), "../" + r.choice(oddn or dn)])
        elif k < 0.4:
            # a pathname of the grammar of the calls, relative to the link's directory
            parts, _ = walk(r, d, entries, r.randint(2, 5))
            t = "/".join(parts) or "."
            if t.startswith("/"):
                t = "." + t
        elif k < 0.6:
            t = r.choice(dirs + [e for e in entries])        # absolute, inside the forest
        elif k < 0.7:
            t = r.choice(["/", root + "/", root + "/./" + r.choice(dn), root + "/" + r.choice(dn) + "/.."])
        elif k < 0.8:
            t = os.path.basename(q)                           # a loop
        if t == "":
            t = "."
        os.symlink(t, q)
        entries[q] = ("l", t)
        links.append(q)
        tp = [x for x in t.split("/") if x]
        if any(x == ".." and i > 0 and tp[i - 1] not in ("..", ".") and isinstance(entries.get(os.path.normpath(d + "/" + "/".join(tp[:i]))), tuple) for i, x in enumerate(tp)):
            nested += 1
    # a chain of 43 links ending at a directory: ch0 -> ch1 -> ... -> ch42 -> a directory
    cd = r.choice(dirs)
    for i in range(43):
        q = "%s/ch%d" % (cd, i)
        t = "ch%d" % (i + 1) if i < 42 else os.path.relpath(r.choice(dirs), cd)
        os.symlink(t, q)
        entries[q] = ("l", t)
    # a relative link that leads to /proc/self (a spelling of it that does not start with /proc/self)
    lps = root + "/lps"
    os.symlink("../" * (root.count("/") - 1) + "../proc/self", lps)
    entries[lps] = ("l", "../" * (root.count("/") - 1) + "../proc/self")
    return dirs, links, entries, cd, lps, odd, nested


def gen_path(r, root, dirs, entries, cd, oddn=()):
    k = r.random()
    pool = ["a", "b", "c", "d", "f", "g", "t.txt", "l0", "l1", "l2", "l3", "l4", "l5", "..", "..", ".", "", "nope", "new"] + list(oddn)
    n = r.randint(1, 8)
    parts = [r.choice(pool) for _ in range(n)]
    if r.random() < 0.5:
        # mostly valid: follow real entries
        parts, cur = walk(r, r.choice(dirs), entries, n)
        return ("" if r.random() < 0.5 else None), parts, cur
    return None, parts, None


def run(c):
    exe = c.build_harness("h_c02")
    c.build_probe("target")
    probe = c.build_probe("pathopsx")
    scratch = os.path.realpath(c.tmpdir("forests"))
    r = c.rng("forests")
    nforest = 10 if c.quick() else 80
    nops = 260 if c.quick() else 600
    cases, metas = [], []
    reachable = [x for x in ABI if x[1] is not None]
    for fi in range(nforest):
        root = "%s/f%d" % (scratch, fi)
        dirs, links, entries, cd, lps, odd, nested = make_forest(r, root)
        oddn = [os.path.basename(q) for q in odd]
        c.cov["directories_with_odd_names"] = c.cov.get("directories_with_odd_names", 0) + len(odd)
        c.cov["link_targets_with_dotdot_after_a_link"] = c.cov.get("link_targets_with_dotdot_after_a_link", 0) + nested
        names = Names()
        lines = []
        cwd = r.choice(dirs)
        lines.append("chdir " + esc(cwd))
        slots = {}
        oddl = sorted(odd, key=lambda q: (odd[q] != "kernel", q)) or [dirs[-1]]
        for s in range(1, 8):
            slots[s] = r.choice(dirs) if 1 < s < 5 else [d for d in dirs if "rather-long-name" in d][0] if s == 1 else oddl[(s - 5) % len(oddl)] if s < 7 else r.choice(oddl)
            lines.append("opendir %d %s" % (s, esc(slots[s])))
        ops = []
        for oi in range(nops):
            if r.random() < 0.06:
                if r.random() < 0.5:
                    cwd = r.choice(dirs)
                    lines.append("chdir " + esc(cwd))
                else:
                    s = r.choice(list(slots))
                    cwd = slots[s]
                    lines.append("fchdir %d" % s)
            name, nr, pairs, cls, fol = r.choice(reachable)
            args = ["n:0"] * 6
            checks = []
            for (dpos, ppos), f in zip(pairs, fol):
                # pathname
                kind = r.random()
                thru = None
                if oi % 40 == 7:
                    p = cd + "/ch%d" % r.choice([0, 1, 2, 3, 4, 20]) if r.random() < 0.5 else "ch%d/." % r.choice([1, 2, 3])
                    if not p.startswith("/"):
                        cwd_save = cwd
                        lines.append("chdir " + esc(cd))
                        cwd = cd
                elif links and r.random() < 0.12:
                    # aimed at a link of the forest: the link itself or something behind it (relative to the base when there is one)
                    thru = (r.choice(links), r.choice(["", "", "/", "/.", "/..", "/../" + r.choice(["a", "b", "f", "new"] + oddn), "/" + r.choice(["a", "b", "c", "d", "f", "g", "l0", "l1"] + oddn),
                                                       "/../" + r.choice(["l0", "l1", "l2", "l3"]), "//" + r.choice(["a", "f"]) + "/.."]), r.random() < 0.6)
                    p = thru[0] + thru[1]
                elif kind < 0.12:
                    p = r.choice(["/proc/self/cwd/", "/proc/thread-self/cwd/", "/proc/self/root" + root + "/", "/proc/thread-self/root" + root + "/", "/proc/self/root" + root + "/",
                                  "/proc/self/fd/%d/" % 0,
                                  # descriptors of the program itself (@k@ is replaced by the number of its k-th directory descriptor)
                                  "/proc/self/fd/@1@/", "/proc/self/fd/@1@/", "/proc/thread-self/fd/@%d@/" % r.choice([1, 2, 3]), "/dev/fd/@%d@/" % r.choice([1, 2, 4]),
                                  # the same entries reached by other spellings: through "..", ".", a doubled slash, a relative link of the forest
                                  "/proc/../proc/self/cwd/", "//proc/self/cwd/", "/proc/./self/cwd/", "/proc/self/../self/cwd/", "/proc//thread-self/./cwd/",
                                  "/usr/../proc/self/cwd/", lps + "/cwd/", lps + "/root" + root + "/"]) + r.choice(["a", "f", "l0", "..", "b/../a", "l1/../c", "c/l2"])
                else:
                    pre, parts, start = gen_path(r, root, dirs, entries, cd, oddn)
                    p = "/".join(parts)
                    if kind < 0.4:
                        p = r.choice(dirs) + "/" + p
                    elif kind < 0.45:
                        p = "/" + p
                    if r.random() < 0.1:
                        p += "/"
                    if p == "":
                        p = "-"
                if len(p) > 3000 or len(esc(p)) > 6000:
                    p = "new"
                    thru = None
                # base directory
                if dpos is None:
                    dspec, base = None, cwd
                else:
                    k = r.random()
                    enc = r.choice(["sx", "zx", "gb"])
                    if k < 0.55:
                        dspec, base = "cwd:" + enc, cwd
                    elif k < 0.95:
                        s = r.choice(list(slots))
                        dspec, base = "slot:%d:%s" % (s, enc), slots[s]
                    else:
                        dspec, base = "num:%d" % r.choice([999, 0xffffffff, 1 << 31]), None
                    args[dpos] = "d:" + dspec
                if thru and thru[2] and base is not None:
                    p = os.path.relpath(thru[0], base) + thru[1]
                # q: the string lies across a page boundary; w: it lies in a page mapped PROT_WRITE only (the kernel reads it all the same)
                k2 = r.random()
                args[ppos] = ("q:" if p != "-" and len(p) > 1 and k2 < 0.22 else "w:" if p != "-" and k2 < 0.34 else "p:") + (p if p == "-" else esc(p))
                scen = (["base directory has an odd name (%s)" % odd[base]] if base in odd and not p.startswith("/") else []) + (["pathname aimed at a link"] if thru else [])
                if base in odd and not p.startswith("/"):
                    c.cov["relative_to_directory_with_odd_name." + odd[base]] = c.cov.get("relative_to_directory_with_odd_name." + odd[base], 0) + 1
                checks.append({"dspec": dspec, "base": base, "path": "" if p == "-" else p, "follow_rule": f, "scenario": scen})
            # flags
            flags = None
            readable = True
            if not isinstance(cls, str):
                flags = r.choice([0, 1, 2, 3]) | sum(b for b in [O_CREAT, O_EXCL, O_TRUNC, 0x400, O_NOFOLLOW, 0x10000, 0x80000, O_PATH] if r.random() < 0.2)
                if r.random() < 0.05:
                    flags |= 0x410000
                if cls[0] == "of":
                    args[cls[1]] = "n:%d" % (flags | (r.choice([0, 0, 1 << 40, 0xdead << 32])))
                else:
                    if r.random() < 0.12:
                        args[cls[1]], readable = "x", False
                    else:
                        args[cls[1]] = "h:%d" % flags
                    args[3] = "n:24"
            for f in fol:
                if not isinstance(f, str):
                    a, bit = f[1], f[2]
                    if isinstance(cls, str):
                        # the follow bit, and bits that do not change which object a non-empty name designates
                        # (AT_EMPTY_PATH counts only with an empty name, AT_NO_AUTOMOUNT never)
                        v = bit if r.random() < 0.4 else 0
                        if all(ck["path"] for ck in checks) and r.random() < 0.3:
                            v |= 0x1000
                        if name in ("statx", "newfstatat", "fstatat", "fstatat64") and r.random() < 0.2:
                            v |= 0x800
                        if v:
                            args[a] = "n:%d" % v
            oid = "%d" % oi
            lines.append("op %s %d %s" % (oid, nr, " ".join(args)))
            for ci, ck in enumerate(checks):
                d = ck["dspec"] or "cwd:sx"
                lines.append("t %s.%d %s %s" % (oid, ci, d, esc(ck["path"]) if ck["path"] else "-"))
            ops.append({"id": oid, "name": name, "nr": nr, "args": args, "checks": checks, "cls": cls, "flags": flags, "readable": readable})
        script = root + ".script"
        open(script, "w").write("\n".join(lines) + "\n")
        cases.append({"id": fi, "wd": root, "script": script, "out": root + ".out", "probe": probe})
        metas.append((root, entries, names, ops))
    obs = c.run_harness(exe, cases, timeout=1500)
    dis = []
    forests_coq, forest_src, class_items, class_src = [], [], [], []
    sc_index = {x[0]: i for i, x in enumerate(ABI)}
    for x, (root, entries, names, ops), o in zip(cases, metas, obs):
        if o.get("status") != 1:
            raise RuntimeError("traced program did not finish normally: status %s exit %s %s" % (o.get("status"), o.get("exit"), o.get("error")))
        truth = {}
        tracee_pid = None
        for ln in o["out"].splitlines():
            w = ln.split(" ")
            if w[0] == "t":
                truth[w[1]] = (unesc(w[2]), unesc(w[3]))
            elif w[0] == "pid":
                tracee_pid = w[1]
        chks = []
        for op in ops:
            calls = o["calls"].get(op["id"])
            rep = {"forest": root, "syscall": op["name"], "registers": op["args"], "observed": calls,
                   "tree": sorted("%s -> %s" % (k[len(root):], v[1]) if isinstance(v, tuple) else k[len(root):] + (" /" if v == "d" else "") for k, v in entries.items()
                                  if "/ch" not in k or k.endswith("ch42"))[:80]}
            cz = lambda what, **kw: dict({"kind": "presented", "what": what, "syscall": op["name"]}, **kw)
            if calls is None:
                c.finding_or_violation(cz("the call was not trapped"), rep, klass="untrapped")
                continue
            if len(calls) != len(op["checks"]) and not any(k == "syscall" for k, _ in calls):
                c.finding_or_violation(cz("number of consultations differs from the number of pathnames", n=len(calls)), rep, klass="count")
                continue
            # classes (also in Coq)
            cls = op["cls"]
            if isinstance(cls, str):
                want_cls = {"r": "read", "w": "write", "s": "stat"}[cls]
            else:
                f = op["flags"]
                ro = op["readable"] and (f & 3) == 0 and not f & (O_CREAT | O_EXCL | O_TRUNC)
                want_cls = "read" if ro else "write"
            nontriv = False
            blocked = False
            for ci, ck in enumerate(op["checks"]):
                if ci >= len(calls):
                    break
                klass, shown = calls[ci]
                tf, tn = truth.get("%s.%d" % (op["id"], ci), ("!missing", "!missing"))
                fr = ck["follow_rule"]
                if fr == "F":
                    follow = True
                elif fr == "N":
                    follow = False
                elif fr == "H":
                    follow = not (op["readable"] and op["flags"] & O_NOFOLLOW) and not (op["readable"] and op["flags"] & O_CREAT and op["flags"] & O_EXCL)
                else:
                    a = op["args"][fr[1]]
                    v = int(a[2:]) if a.startswith("n:") else 0
                    follow = (not v & fr[2]) if fr[0] == "U" else bool(v & fr[2])
                    if op["name"] in ("open", "openat") and v & O_CREAT and v & O_EXCL:
                        follow = False
                want = tf if follow else tn
                isproc = ck["path"].startswith("/proc/") or "lps" in ck["path"].split("/") or "/proc/" in ck["path"] or ck["path"].startswith("/dev/fd/")
                # aliases through the root link are inside the model (the /proc entries of the tracee are part of the forest)
                rootalias = ck["path"].startswith("/proc/self/root/") or ck["path"].startswith("/proc/thread-self/root/") or "/lps/root/" in ck["path"]
                if klass == "syscall":
                    blocked = True
                    if not (shown == "procfs-path" and (isproc or "/proc/" in (tf + tn))):
                        c.finding_or_violation(cz("consultation by name instead of by path", shown=shown), dict(rep, pathname=ck["path"]), klass="byname")
                    break
                if klass != want_cls:
                    c.finding_or_violation(cz("access class does not match the call and its flags", asked=klass, expected=want_cls,
                                              flags=op["flags"]), dict(rep, pathname=ck["path"]), klass="class")
                if not want.startswith("!"):
                    crossing = ".." in ck["path"].split("/") or tf != os.path.normpath((ck["base"] or "") + "/" + ck["path"] if not ck["path"].startswith("/") else ck["path"])
                    nontriv = nontriv or crossing
                    if shown != want:
                        if not follow and tf != tn:      # the last component is a symbolic link and the call does not follow it
                            c.finding_or_violation({"kind": "nofollow", "what": "a call that does not follow a final symbolic link is presented with the link's target"},
                                                   dict(rep, pathname=ck["path"], presented=shown, kernel=want))
                        else:
                            c.finding_or_violation(cz("presented path is not the object the kernel resolves to", encoding=(ck["dspec"] or "none").split(":")[-1]),
                                                   dict(rep, pathname=ck["path"], base=ck["base"], presented=shown, kernel=want, follow=follow, scenario=ck.get("scenario")),
                                                   klass="path:" + ("proc" if isproc else "plain"))
                # Coq: model vs code vs kernel, outside /proc
                if (not isproc or rootalias) and ck["base"] is not None and "/proc" not in shown:
                    ia, pc = comps(ck["path"], names)
                    tcode = lambda t: "TSkip" if t in ("!dangling", "!missing", "!readlink") or "/proc" in t else ("TErr" if t.startswith("!") else "TPath " + canon(t, names))
                    chks.append("(%s, %s, %s, %s, %s, %s)" % (canon(ck["base"], names), "true" if ia else "false", pc, canon(shown, names), tcode(tf), tcode(tn)))
                    forest_src.append((x["id"], op, ci))
                    if rootalias:
                        c.cov["proc_root_aliases_compared_in_coq"] = c.cov.get("proc_root_aliases_compared_in_coq", 0) + 1
            if not blocked and all(k != "syscall" for k, _ in calls):
                class_items.append("(%d, %s, %s)" % (sc_index[op["name"]], "None" if (isinstance(cls, str) or not op["readable"]) else "Some %d%%N" % op["flags"],
                                                     coq_list(["%d%%N" % {"read": 0, "write": 1, "stat": 2}[k] for k, _ in calls])))
                class_src.append((x["id"], op))
            c.count(json.dumps([x["id"], op["name"], op["args"]]), nontrivial=nontriv, klass="op:" + op["name"])
            for ck in op["checks"]:
                key = "base." + ("abs" if ck["path"].startswith("/") else (ck["dspec"] or "cwd-implicit").split(":")[0] + ":" + (ck["dspec"] or "::-").split(":")[-1])
                c.dist[key] = c.dist.get(key, 0) + 1
        ents = []
        seen = set()
        pref = root
        while pref and pref != "/":
            seen.add(pref)
            pref = os.path.dirname(pref)
        for d in sorted(seen):
            ents.append("(%s, Dir)" % canon(d, names))
        for k, v in entries.items():
            if v == "d":
                ents.append("(%s, Dir)" % canon(k, names))
            elif v == "f":
                ents.append("(%s, File)" % canon(k, names))
            else:
                ia, pc = comps(v[1], names)
                ents.append("(%s, Link %s %s)" % (canon(k, names), "true" if ia else "false", pc))
        # the tracee's /proc entries: self and thread-self (whose targets depend on the reader), and the root links
        pr, pd = "/proc", "/proc/" + str(tracee_pid)
        for d in (pr, pd, pd + "/task", pd + "/task/" + str(tracee_pid)):
            ents.append("(%s, Dir)" % canon(d, names))
        ents.append("(%s, Link false %s)" % (canon(pr + "/self", names), comps(str(tracee_pid), names)[1]))
        ents.append("(%s, Link false %s)" % (canon(pr + "/thread-self", names), comps("%s/task/%s" % (tracee_pid, tracee_pid), names)[1]))
        ents.append("(%s, Link true [])" % canon(pd + "/root", names))
        ents.append("(%s, Link true [])" % canon(pd + "/task/" + str(tracee_pid) + "/root", names))
        special = coq_list(["(%s, %s)" % (canon(pr + "/self", names), canon(pd, names)),
                            "(%s, %s)" % (canon(pr + "/thread-self", names), canon(pd + "/task/" + str(tracee_pid), names))])
        forests_coq.append((coq_list(ents), special, chks))
    c.sample({"forest": metas[0][0], "ops": [{"syscall": op["name"], "registers": op["args"], "asked": obs[0]["calls"].get(op["id"])} for op in metas[0][3][:6]],
              "kernel": obs[0]["out"].splitlines()[:8]})
    # ---- Coq
    body = HDR + "Definition py_abi : list (list (list N)) := %s.\n" % coq_list([coq_list([coq_list(["%d%%N" % v for v in ck]) for ck in row]) for row in abi_code()])
    body += "Definition T := Eval vm_compute in (if list_eq_dec (list_eq_dec (list_eq_dec N.eq_dec)) py_abi abi_code then 1 else 0)%N.\nPrint T.\n"
    # long list literals overflow Coq's stack: chunks of 1500, indices re-based by the driver
    CH = 1500
    for k in range(0, len(class_items), CH):
        body += "Definition cl%d : list (nat * option N * list N) := %s.\nDefinition MC%d := Eval vm_compute in failing classes_ok cl%d.\nPrint MC%d.\n" % (
            k, coq_list(class_items[k:k + CH]), k, k, k)
    base_idx = []
    off = 0
    for i, (ents, special, chks) in enumerate(forests_coq):
        base_idx.append(off)
        off += len(chks)
    out = c.coq_eval("tables", body, timeout=1500)
    # the forests, ten per file, in parallel
    import concurrent.futures

    def shard(k):
        b = HDR
        for i in range(k, min(k + 10, len(forests_coq))):
            ents, special, chks = forests_coq[i]
            b += ("Definition f%d : list (list nat * node) * list (list nat * list nat) * list chk := (%s, %s, %s).\n"
                  "Definition M%d := Eval vm_compute in forest_failing f%d.\nPrint M%d.\n") % (i, ents, special, coq_list(chks), i, i, i)
        return c.coq_eval("forests%d" % k, b, timeout=1500)
    with concurrent.futures.ThreadPoolExecutor(max_workers=8) as ex:
        outs = list(ex.map(shard, range(0, len(forests_coq), 10)))
    fout = "\n".join(outs)
    if c.parse_nums(c.parse_printed(out, "T").replace("%N", "")) != [1]:
        dis.append({"relation": "the driver's ABI table equals abi_table"})
    bad_classes = []
    for k in range(0, len(class_items), CH):
        bad_classes += [k + i for i in c.parse_nums(c.parse_printed(out, "MC%d" % k).replace("%N", ""))]
    for i in bad_classes:
        fid, op = class_src[i]
        dis.append({"relation": "classes_ok (classes asked = class_of (handle_table ..))", "syscall": op["name"], "registers": op["args"],
                    "asked": obs[fid]["calls"].get(op["id"])})
    for fi in range(len(forests_coq)):
        for i in c.parse_nums(c.parse_printed(fout, "M%d" % fi).replace("%N", "")):
            fid, op, ci = forest_src[base_idx[fi] + i]
            dis.append({"relation": "chk_ok (presented = code's answer; kernel_resolution = kernel's answer, following and not following)",
                        "forest": metas[fid][0], "syscall": op["name"], "registers": op["args"], "check": op["checks"][ci],
                        "asked": obs[fid]["calls"].get(op["id"]), "kernel": [l for l in obs[fid]["out"].splitlines() if l.startswith("t %s.%d " % (op["id"], ci))],
                        "tree": sorted("%s -> %s" % (k[len(metas[fid][0]):], v[1]) if isinstance(v, tuple) else k[len(metas[fid][0]):] for k, v in metas[fid][1].items()
                                       if "/ch" not in k or k.endswith("ch42"))})
    c.cov["forests"] = nforest
    c.cov["consultations_compared_in_coq"] = off
    c.cov["class_rows_compared_in_coq"] = len(class_items)
    c.cov["traces_validated_against_impl"] = off + len(class_items)
    c.cov["correspondence_disagreements"] = len(dis)
    if dis:
        c.cov["disagreement_samples"] = dis[:3]
        if not c.violations:
            c.violation({"kind": "correspondence-broken", "theorems_no_longer_about_the_code": c.theorems, "disagreements": dis[:5]}, no_input=True)

"""C06 — the program's descriptor table is exactly the caller's list.
Tie: real launches through forkexec.Runner.Start with controlled descriptor numbers; the started probe
reports identity (dev, inode) of every open descriptor; compared with Launch/FdShuffle.v evaluated in Coq.
Oracle: slot k = k-th listed open file, nothing else open, configuration unchanged, second start identical."""
import itertools
import json
import os
import subprocess

from vlib import coq_list, coq_Z

FINISH = dict(level="proof", rule=(
    "exhaustive small scope: every descriptor list of length <= 3 over {-1, 0, 1, 2, 12, 13} x exec descriptor {none, 14} x "
    "socketpair placement {natural, [16,17]} in the vfork configuration (plus the fork configuration for lists of length <= 2); "
    "random lists up to length 24 over {-1, 0..2, 12..40} with repeats, sources below and above their slot, socketpair and exec "
    "descriptor placed below / inside / above the scratch area and next to each other, fork and vfork, second start of the same "
    "Runner; a malformed stream (listed numbers that are not open) capped at 10%.  Non-trivial: a list with at least one entry "
    "out of place; distinct = distinct (list, exec, socketpair, mode).  Container histories: in one container, requests carrying a "
    "descriptor list / executable descriptor / cgroup descriptor that are refused (no arguments, name not in PATH), fail while launching (missing "
    "program, executable descriptor that cannot be executed, invalid resource limit), are vetoed by SyncFunc, are cancelled, exit or are killed, "
    "alone, as the first request of a fresh container, and in random mixed histories with Open / Ping / Reset in between; every program started "
    "afterwards (and the same configuration once more) has exactly its list open."))

HDR = "From GS Require Import Launch.FdShuffle Launch.FdShuffleProofs Launch.EvalFd.\nOpen Scope Z_scope.\n"


def run(c):
    exe = c.build_harness("h_c06")
    c.build_probe("target")
    scratch = c.tmpdir("scratch")
    r = c.rng("lists")
    cases = []

    def add(files, ex=0, pipe=None, fork=False, second=False, extra=None, klass="random"):
        cases.append({"id": len(cases), "files": files, "exec": ex, "pipe": pipe, "fork": fork, "second": second,
                      "extra": extra or [], "_klass": klass})
    # corpus: the two defects of the pinned tree
    add([0, 1, 2, 25, 26], 27, [23, 24], second=True, klass="corpus")
    add([2, 1, 0], 12, None, second=True, klass="corpus")
    add([0, 1, 2], 14, [12, 13], second=True, klass="corpus")
    alpha = [-1, 0, 1, 2, 12, 13]
    for n in range(0, 4):
        for fl in itertools.product(alpha, repeat=n):
            for ex in (0, 14):
                for pipe in (None, [16, 17]):
                    add(list(fl), ex, pipe, klass="small")
                    if n <= 2:
                        add(list(fl), ex, pipe, fork=True, klass="small")
    # the sync socket and the exec descriptor next to each other inside the scratch area, reached after 1..m moved entries
    for n in (5, 7, 10):
        fl = [0, 1, 2] + [(i * 7) % 3 for i in range(n - 3)]          # every entry from slot 3 on has its source below its slot: all are moved
        for X in range(n, 2 * n + 1):
            add(list(fl), X + 1, [X - 1, X], klass="adjacent")         # socket, then exec
            add(list(fl), X, [X - 1, X + 1], klass="adjacent")         # exec, then socket
            add(list(fl), X + 2, [X - 1, X], klass="adjacent")
            add(list(fl), X + 1, [X - 1, X], fork=True, klass="adjacent")
    nrand = 300 if c.quick() else 3000
    for _ in range(nrand):
        n = r.choice([1, 2, 3, 5, 8, 13, 14, 15, 16, 20, 24])
        pool_hi = list(range(12, 41))
        fl = []
        for i in range(n):
            k = r.random()
            if k < 0.1:
                fl.append(-1)
            elif k < 0.35:
                fl.append(r.choice([0, 1, 2]))
            elif k < 0.5 and i > 12:
                fl.append(r.randint(12, i - 1) if i > 12 else 12)     # source below its slot
            else:
                fl.append(r.choice(pool_hi))
        used = set(x for x in fl if x >= 3)
        free = [x for x in range(10, 60) if x not in used]
        ex = 0
        if r.random() < 0.5:
            ex = r.choice([x for x in free if x >= 12])
            free.remove(ex)
        pipe = None
        if r.random() < 0.7:
            hi = max([n] + [x for x in fl if x >= 0]) + 1          # first scratch number
            cand = [x for x in free if x + 1 in free]
            near = [x for x in cand if abs(x - hi) <= 3 or (ex and abs(x - ex) <= 2)]
            a = r.choice(near) if near and r.random() < 0.6 else r.choice(cand)
            pipe = [a, a + 1] if r.random() < 0.8 else [a + 1, a]
        extra = [x for x in r.sample(free, 3) if x not in (pipe or []) and x >= 12] if r.random() < 0.3 else []
        if r.random() < 0.08:
            # malformed: a listed number that is not open in the launcher
            fl[r.randrange(len(fl))] = r.choice([x for x in range(61, 70)])
            add(fl, ex, pipe, fork=r.random() < 0.4, klass="malformed")
        else:
            add(fl, ex, pipe, fork=r.random() < 0.4, second=r.random() < 0.3, extra=extra)
    conc = [16, 150] if c.quick() else [16, 1500]
    cases.append({"id": len(cases), "concurrent": conc, "_klass": "concurrent"})
    inp, outp = os.path.join(c.work, "cases.jsonl"), os.path.join(c.work, "out.jsonl")
    with open(inp, "w") as f:
        for x in cases:
            f.write(json.dumps({k: v for k, v in x.items() if not k.startswith("_")}) + "\n")
    # (bound of the thorough tier raised from 1200 s: on a machine loaded by other work its 4300 cases + 24000 concurrent starts need longer)
    p = subprocess.run([exe, inp, outp, scratch], stdout=subprocess.PIPE, stderr=subprocess.PIPE, timeout=1200 if c.quick() else 7200)
    if p.returncode != 0:
        raise RuntimeError("h_c06 failed: " + p.stderr.decode()[-2000:])
    obs = [json.loads(l) for l in open(outp)]
    assert len(obs) == len(cases), (len(obs), len(cases))
    items, idx, skipped, dis = [], [], 0, []
    for x, o in zip(cases, obs):
        if "concurrent" in x:
            c.evaluations += o["starts"]
            c.cov["concurrent_starts"] = o["starts"]
            if o["bad"]:
                c.finding_or_violation({"kind": "descriptor-table", "what": "a concurrently started program sees foreign descriptors",
                                        "bad_starts": o["bad"], "of": o["starts"]}, {"first_bad_table": o["first_bad"], "goroutines_x_starts": x["concurrent"]})
            continue
        if "skipped" in o:
            skipped += 1
            continue
        par = {int(k): tuple(v) for k, v in o["parent"].items()}
        ident = {}
        for v in par.values():
            ident.setdefault(v, len(ident) + 2)
        if x["pipe"]:
            p0, p1 = x["pipe"] if x["pipe"][0] < x["pipe"][1] else (x["pipe"][1], x["pipe"][0])
            # socketpair returns the two lowest free numbers in order
        else:
            freeset = [n for n in range(0, 200) if n not in par]
            p0, p1 = freeset[0], freeset[1]
        files, ex = x["files"], x["exec"]
        n = len(files)
        out_of_place = any(f != i for i, f in enumerate(files))
        c.count((tuple(files), ex, tuple(x["pipe"] or ()), x["fork"]), nontrivial=out_of_place,
                klass=x["_klass"] + (":fork" if x["fork"] else ":vfork"))
        table = o.get("first_table")
        started = table is not None
        tab = {t[0]: (t[1], t[2]) for t in table} if started else None

        def coq_tab(d):
            return coq_list(["(%d, %d%%nat)" % (k, ident[v]) for k, v in sorted(d.items()) if v in ident])
        if started and any(v not in ident for v in tab.values()):
            c.finding_or_violation({"kind": "foreign-descriptor-in-program", "files": files, "exec": ex, "pipe": x["pipe"]},
                                   {"case": x, "child": table})
            continue
        items.append("(%s, %d, %d, %s, %d, %s)" % (coq_tab(par), p0, p1, coq_list([coq_Z(f) for f in files]), ex,
                                                    "(Some %s)" % coq_tab(tab) if started else "None"))
        idx.append(x["id"])
        # ---- property oracle
        canon = lambda what, **kw: dict({"kind": "descriptor-table", "what": what, "mode": "fork" if x["fork"] else "vfork",
                                         "files": files, "exec": ex, "pipe": [p0, p1]}, **kw)
        valid = all(f == -1 or f in par for f in files)
        if valid:
            if not started:
                c.finding_or_violation(canon("launch failed: " + str(o.get("first_err"))), {"case": x, "observed": {k: v for k, v in o.items() if k != "parent"}})
            else:
                want = {i: par[f] for i, f in enumerate(files) if f != -1}
                if tab != want:
                    extra_ = sorted(set(tab) - set(want))
                    wrong = sorted(k for k in want if tab.get(k) != want[k])
                    c.finding_or_violation(canon("program's table differs from the list", extra_open=extra_, wrong_or_missing_slots=wrong),
                                           {"case": x, "child": table, "expected_slots": {k: list(v) for k, v in want.items()}})
                if any(t[4] for t in table):
                    c.finding_or_violation(canon("close-on-exec set on a slot"), {"case": x, "child": table})
            if o.get("exec_after") != ex or not o.get("files_after"):
                c.finding_or_violation(canon("Start modified the caller's configuration", exec_after=o.get("exec_after")), {"case": x})
            if x["second"] and started and o.get("second_table") != table:
                c.finding_or_violation(canon("second start of the same configuration behaves differently",
                                             second_err=o.get("second_err")), {"case": x, "first": table, "second": o.get("second_table")})
        if o.get("launcher_leaked"):
            c.finding_or_violation(canon("launcher leaked descriptors", leaked=o["launcher_leaked"]), {"case": x})
    c.sample({"case": {k: v for k, v in cases[0].items() if not k.startswith("_")}, "child_table": obs[0].get("first_table"), "err": obs[0].get("first_err")})
    c.sample({"case": {k: v for k, v in cases[-2].items() if not k.startswith("_")}, "child_table": obs[-2].get("first_table")})
    # ---- model side, sharded
    import concurrent.futures as cf
    nsh = 12
    sh = [list(range(k, len(items), nsh)) for k in range(nsh)]

    def shard(k):
        body = HDR + "Definition cs := %s.\nDefinition M := Eval vm_compute in failing launch_ok cs.\nPrint M.\n" % coq_list([items[i] for i in sh[k]])
        return [sh[k][j] for j in c.parse_nums(c.parse_printed(c.coq_eval("fd%d" % k, body, timeout=1200 if c.quick() else 7200), "M").replace("%N", ""))]
    with cf.ThreadPoolExecutor(max_workers=nsh) as ex_:
        for res in ex_.map(shard, range(nsh)):
            for i in res:
                cid = idx[i]
                dis.append({"relation": "launch_ok (program's table vs at_exec (shuffle ...))",
                            "case": {k: v for k, v in cases[cid].items() if not k.startswith("_")},
                            "child": obs[cid].get("first_table"), "err": obs[cid].get("first_err")})
    # ---- programs started inside a container: the list, and nothing of the container init (stdio, control socket, set-up leftovers)
    cexe = c.build_harness("h_c06c")
    cscr = c.tmpdir("ct")
    ccases = []
    lists = [[], [0], [0, 0], [0, 1], [1, 0], [0, 1, 2], [2, 0, 1], [0, 0, 0], [0, 1, 2, 3], [3, 2, 1, 0, 0], [0, 1, 2, 1, 0, 2, 3]]
    if not c.quick():
        lists += [[r.randrange(0, 4) for _ in range(r.randint(0, 9))] for _ in range(40)]
    for li, l in enumerate(lists):
        for execfd in (False, True):
            ccases.append({"id": len(ccases), "pool": 4, "list": l, "execfd": execfd, "sync": li % 3 == 1, "sync_after": li % 3 == 2 and li % 2 == 0})
    # the executable descriptor together with a cgroup descriptor; an interpreter script as the executable descriptor
    for l in ([0, 1, 2], [1], [], [2, 2, 0, 1]):
        ccases.append({"id": len(ccases), "pool": 4, "list": l, "execfd": True, "cgroupfd": True, "sync": False, "sync_after": False})
        ccases.append({"id": len(ccases), "pool": 4, "list": l, "execfd": False, "cgroupfd": True, "sync": True, "sync_after": False})
        ccases.append({"id": len(ccases), "pool": 4, "list": l, "execfd": False, "script": True, "sync": False, "sync_after": False})
    cobs = c.run_harness(cexe, ccases, env=dict(os.environ, VERIF_SCRATCH=cscr), timeout=900)
    for x, o in zip(ccases, cobs):
        if "harness_err" in o:
            raise RuntimeError(o["harness_err"])
        if "skipped" in o:
            continue
        if x.get("script") and o.get("status") != 1 and "table" not in o:
            # an interpreter script as the executable descriptor is not supported by this tree: nothing ran, nothing to compare
            c.count(("container-script-refused", tuple(x["list"])), klass="container:script-refused")
            continue
        c.count(("container", tuple(x["list"]), x["execfd"], x["sync"], x["sync_after"], x.get("cgroupfd"), x.get("script")), nontrivial=len(x["list"]) != 3 or x["list"] != [0, 1, 2],
                klass="container:%d-entries" % min(len(x["list"]), 4))
        canon = lambda what, **kw: dict({"kind": "descriptor-table", "what": what, "mode": "container", "entries": len(x["list"]), "exec_descriptor": x["execfd"]},
                                        **dict(kw, **({"cgroup_descriptor": True} if x.get("cgroupfd") else {}), **({"script": True} if x.get("script") else {})))
        if o.get("status") != 1 or "table" not in o:
            c.finding_or_violation(canon("a program started in the container with this list did not run or report", status=o.get("status"), error=str(o.get("error"))[:80]),
                                   {"case": x, "observed": o})
            continue
        tab = {t[0]: (t[1], t[2]) for t in o["table"]}
        want = {i: tuple(w) for i, w in enumerate(o["want"])}
        if tab != want:
            extra_ = sorted(set(tab) - set(want))
            c.finding_or_violation(canon("program's table differs from the list", extra_open=extra_, wrong_or_missing_slots=sorted(k for k in want if tab.get(k) != want[k]),
                                         extra_is_init_stderr=[k for k in extra_ if list(tab[k]) == o["init_stderr"]]),
                                   {"case": x, "child": o["table"], "expected_slots": {k: list(v) for k, v in want.items()}})
        elif any(t[4] for t in o["table"]):
            c.finding_or_violation(canon("close-on-exec set on a slot"), {"case": x, "child": o["table"]})
    # ---- histories inside one container: requests that carry descriptors and are refused by the container, fail while launching, are vetoed
    # by the caller's SyncFunc, are cancelled or simply run -- and then a program: whatever the container has been asked before, the program has
    # exactly its own list open (nothing that an earlier request carried), and the same configuration started again sees the same
    hscr = c.tmpdir("cth")
    hr = c.rng("histories")
    closing = [[], [0], [1, 0], [0, 0], [0, 1, 2], [2, 0, 1, 1], [0, 1, 2, 3, 0, 1]]
    carry = [dict(pool=3, list=[0, 1, 2]), dict(pool=2, list=[1, 0, 1], execfd="target"), dict(pool=1, list=[0], execfd="target", cgroupfd=True),
             dict(pool=4, list=[3, 2, 1, 0, 0, 2]), dict(pool=1, list=[], execfd="target"), dict(pool=5, list=[0, 1, 2, 3, 4], cgroupfd=True)]
    kinds = ["noargs", "emptyargs", "notinpath", "notfound", "badexec", "badrlimit", "veto", "cancel", "exit", "killed"]
    neutral = ["open", "ping", "reset"]

    def request(kind, k):
        st = dict(carry[k % len(carry)], kind=kind)
        if kind == "badexec":
            st["execfd"] = ("data", "dir")[k % 2]
        if kind == "veto" and k % 2:
            st["sync_after"] = True
        elif kind != "veto" and k % 3 == 1:
            st["sync"] = True
        elif kind not in ("veto", "cancel") and k % 5 == 2:
            st["sync_after"] = True
        return st

    def probes(k, again=True):
        l = closing[k % len(closing)]
        ps = [dict(kind="probe", pool=4, list=l, **({"execfd": "target"} if k % 4 == 3 else {}))]
        return ps + ([dict(kind="probe", again=True)] if again else [])
    hcases = []

    def hadd(steps, klass, fresh=False):
        hcases.append({"id": len(hcases), "steps": steps, "fresh": fresh, "_klass": klass})
    hadd(probes(4), "plain", fresh=True)
    # one request that does not end in a running program, then programs
    for ki, kind in enumerate(kinds):
        for v in range(2 if c.quick() else len(carry)):
            k = ki + v * 3 if c.quick() else v
            hadd([request(kind, k)] + probes(ki + v), "single:" + kind)
    # the first request a container ever receives is such a request
    for ki, kind in enumerate(["noargs", "notinpath", "badexec", "veto"] if c.quick() else kinds):
        hadd([request(kind, ki + 1)] + probes(ki + 1), "first-request:" + kind, fresh=True)
    # mixed histories: several such requests, programs and other commands in between
    for h in range(10 if c.quick() else 150):
        steps = []
        for _ in range(hr.randint(2, 6)):
            u = hr.random()
            if u < 0.15:
                steps.append(dict(kind=hr.choice(neutral)))
            elif u < 0.3:
                steps += probes(hr.randrange(100), again=False)
            else:
                kind = hr.choice(kinds if hr.random() < 0.8 else ["noargs", "emptyargs", "notinpath"])
                steps.append(request(kind, hr.randrange(100)))
        hadd(steps + probes(hr.randrange(100)), "mixed", fresh=h % 5 == 0)
    import time
    t0 = time.time()
    hobs = c.run_harness(cexe, [{k: v for k, v in x.items() if not k.startswith("_")} for x in hcases], env=dict(os.environ, VERIF_SCRATCH=hscr), args=("history",), timeout=900)
    c.cov["container_history_seconds"] = round(time.time() - t0, 1)
    assert len(hobs) == len(hcases), (len(hobs), len(hcases))
    nprobe = 0
    for x, o in zip(hcases, hobs):
        if "harness_err" in o:
            raise RuntimeError(o["harness_err"])
        # everything this container was asked before this case belongs to the history
        earlier = [(y, p) for y, p in zip(hcases, hobs) if p.get("container") == o["container"] and y["id"] < x["id"]]
        carried = []                                       # (identity, description) of every descriptor an earlier request carried
        for y, p in earlier:
            for si, s in enumerate(p["steps"]):
                carried += [(tuple(idn), "%s of request %d of case %d (%s)" % (role, si, y["id"], s["kind"])) for role, idn in s.get("carried", {}).items()]
        hist = [s["kind"] for s in x["steps"]]
        c.count(("container-history", tuple(json.dumps(s, sort_keys=True) for s in x["steps"]), x["fresh"]), klass="container-history:" + x["_klass"])
        for si, (st, s) in enumerate(zip(x["steps"], o["steps"])):
            if s["kind"] != "probe":
                carried += [(tuple(idn), "%s of request %d of this case (%s: %s)" % (role, si, s["kind"], str(s.get("error"))[:60])) for role, idn in s.get("carried", {}).items()]
                continue
            if "skipped" in s:
                continue
            nprobe += 1
            before = [dict(t, outcome={"status": q.get("status"), "error": str(q.get("error"))[:100]}) for t, q in zip(x["steps"][:si], o["steps"][:si])]
            canon = lambda what, **kw: dict({"kind": "descriptor-table", "what": what, "mode": "container-history", "requests_before": hist[:si],
                                             "entries": len(s.get("want", [])), "fresh_container": o["requests_before"] == 0}, **kw)
            rep = {"history_in_this_container": {"earlier_cases": [{"case": y["id"], "steps": y["steps"]} for y, _ in earlier], "this_case_before_the_program": before},
                   "program": st, "observed": {"status": s.get("status"), "error": s.get("error"), "table": s.get("table"), "no_report": s.get("no_report")}}
            if s.get("status") != 1 or "table" not in s:
                c.finding_or_violation(canon("a program started in the container after this history did not run or report", status=s.get("status"),
                                             error=str(s.get("error"))[:80]), rep, klass="descriptor-table:container-history")
                continue
            tab = {t[0]: (t[1], t[2]) for t in s["table"]}
            want = {i: tuple(w) for i, w in enumerate(s["want"])}
            rep["expected_slots"] = {k: list(v) for k, v in want.items()}
            if tab != want:
                extra_ = sorted(set(tab) - set(want))
                origin = {}
                for k in sorted(tab):
                    if tab[k] != want.get(k):
                        origin[k] = ([d for idn, d in carried if idn == tab[k]] or
                                     ["the container init's stderr" if list(tab[k]) == o["init_stderr"] else "not a descriptor of any request of this history"])[-1]
                rep["foreign_descriptors"] = {k: {"identity": list(tab[k]), "close_on_exec": [t[4] for t in s["table"] if t[0] == k][0], "is": origin[k]} for k in origin}
                c.finding_or_violation(canon("program's table differs from the list", extra_open=extra_,
                                             wrong_or_missing_slots=sorted(k for k in want if tab.get(k) != want[k]),
                                             extra_from_earlier_request=sorted(k for k in origin if " of request " in origin[k])),
                                       rep, klass="descriptor-table:container-history")
            elif any(t[4] for t in s["table"]):
                c.finding_or_violation(canon("close-on-exec set on a slot"), rep, klass="descriptor-table:container-history")
            # the descriptors of this program belong to the history of the ones after it
            carried += [(tuple(idn), "%s of request %d of this case (program that ran)" % (role, si)) for role, idn in s.get("carried", {}).items()]
    c.cov["container_history_cases"] = len(hcases)
    c.cov["container_history_programs_observed"] = nprobe
    c.cov["container_launches"] = len(ccases)
    c.cov["launches"] = len(cases) - skipped
    c.cov["skipped_cases"] = skipped
    c.cov["exhaustive"] = True
    c.cov["correspondence_disagreements"] = len(dis)
    if dis:
        c.cov["disagreement_samples"] = dis[:5]
        if not c.violations:
            c.violation({"kind": "correspondence-broken", "theorems_no_longer_about_the_code": c.theorems, "disagreements": dis[:10]}, no_input=True)

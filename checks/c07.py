"""C07 — sync gate; failed launches never run and leave no child.
Tie: real launches through forkexec.Runner.Start with a fault induced at each reachable step by real inputs, with /
without callback (succeeding / failing), with / without user namespace; observed: inside the callback the image, state
and parent of the pid; afterwards the marker file of the target, wait4(-1), the ChildError.  Each outcome must be a
terminal outcome of the sync LTS for its configuration (evaluated in Coq) and name the induced fault."""
import json
import os

from vlib import coq_list, coq_bool

FINISH = dict(level="proof", rule=(
    "faults: none, clone (bad cgroup descriptor), id-map write (overlapping ranges), setgid (unmapped gid), dup3 (closed "
    "descriptor), mount k (source vanished), pivot root (missing), chdir (missing), rlimit k (above the hard limit without "
    "privilege), seccomp (invalid program), execve (missing executable), failing callback — x callback {none, ok, failing} x "
    "user namespace {no, yes} x 2 repetitions; container launch histories, also over the options of the launch request (cgroup "
    "descriptor good / bad, executable by descriptor, filter, limits, descriptor list) with the callback before / after exec.  Non-trivial: a launch with an induced fault; distinct = distinct (fault, "
    "callback, namespace)."))

HDR = "From Coq Require Import List.\nImport ListNotations.\nFrom GS Require Import Launch.SyncLts Launch.EvalSync.\n"
EXPECT = {"clone": "clone", "idmap": "unshare_user_read", "setgid": "setgid", "setgroups": "setgroups", "dup3": "dup3", "mount": "mount", "pivot": "mount(tmpfs)",
          "chdir": "chdir", "rlimit": "setrlimt", "seccomp": "seccomp", "execve": "execve"}
INDEX = {"mount": 1, "rlimit": 1}
FORCES_USERNS = {"idmap", "setgid", "setgroups", "mount", "pivot", "rlimit"}
LOCNUM = {"clone": 1, "unshare_user_read": 2, "sync_read": 4, "execve": 5}


def run(c):
    exe = c.build_harness("h_c07")
    c.build_probe("target")
    scratch = c.tmpdir("scratch")
    env = dict(os.environ, VERIF_SCRATCH=scratch)
    cases = []
    r7 = c.rng("container-histories")
    for rep in range(2 if c.quick() else 10):
        for fault in ["none"] + list(EXPECT):
            for sync in ("none", "ok", "fail"):
                for userns in (False, True):
                    if fault in FORCES_USERNS and not userns:
                        continue
                    cases.append({"id": len(cases), "fault": fault, "sync": sync, "userns": userns})
    # the error record must reach the parent whatever descriptor numbers the caller's list makes the shuffle use
    for n in range(3, 40):
        cases.append({"id": len(cases), "fault": "execve", "sync": "none", "userns": False, "files_n": n})
        if n % 3 == 0:
            cases.append({"id": len(cases), "fault": "none", "sync": "ok", "userns": False, "files_n": n})
    for rep in range(2 if c.quick() else 10):
        for fault in ("execve", "chdir", "dup3"):
            for sync in ("none", "ok", "fail"):
                cases.append({"id": len(cases), "fault": fault, "sync": sync, "userns": False, "ptrace": True})
    # launches in one container environment: callback before / after exec, succeeding / refusing, live / cancelled context, in histories
    for h in range(3 if c.quick() else 20):
        ls = []
        for _ in range(r7.randint(4, 10)):
            ls.append({"sync_after": r7.random() < 0.4, "cb": r7.choice(["none", "ok", "ok", "fail"]), "precancel": r7.random() < 0.2})
        if h == 0:
            ls = [{"sync_after": True, "cb": "ok", "precancel": False}, {"sync_after": False, "cb": "ok", "precancel": False},
                  {"sync_after": False, "cb": "fail", "precancel": True}, {"sync_after": False, "cb": "fail", "precancel": False},
                  {"sync_after": False, "cb": "ok", "precancel": True}, {"sync_after": True, "cb": "fail", "precancel": False}, {"sync_after": False, "cb": "none", "precancel": False}]
        cases.append({"id": len(cases), "fault": "container_hist", "launches": ls})
    # the same histories over the further options of a container launch request: child cloned into a cgroup v2 directory given by
    # descriptor / a descriptor that is no cgroup directory (the clone step fails), executable by descriptor, filter, resource
    # limits, longer descriptor list; the callback may wait before it looks, so that a target that was not held back has run
    r7c = c.rng("container-configs")
    def opts(cg=None):
        return {"cgroup": cg if cg is not None else r7c.choice(["none", "dir", "dir", "bad"]), "exec_fd": r7c.random() < 0.3, "seccomp": r7c.random() < 0.3,
                "rlimits": r7c.random() < 0.3, "files_n": r7c.choice([3, 3, 4, 9, 17]), "cb_delay_ms": r7c.choice([0, 0, 20, 60])}
    for h in range(3 if c.quick() else 20):
        ls = []
        if h == 0:
            # every (callback position, callback, cgroup option) once, the other options drawn
            for cg in ("dir", "bad", "none"):
                for sa in (False, True):
                    for cb in ("ok", "fail", "none"):
                        ls.append(dict({"sync_after": sa, "cb": cb, "precancel": False}, **opts(cg)))
            r7c.shuffle(ls)
        else:
            for _ in range(r7c.randint(5, 10)):
                ls.append(dict({"sync_after": r7c.random() < 0.4, "cb": r7c.choice(["none", "ok", "ok", "fail"]), "precancel": r7c.random() < 0.15}, **opts()))
        cases.append({"id": len(cases), "fault": "container_hist", "launches": ls})
    cases.append({"id": len(cases), "fault": "ptrace_runner"})
    # the launching process is killed while the callback runs (theorem C07_launcher_death)
    for k in range(4 if c.quick() else 24):
        cases.append({"id": len(cases), "fault": "launcher_death", "userns": k % 2 == 1, "delay_ms": [0, 1, 5, 30][k % 4] if k < 4 else r7.randrange(0, 60)})
    obs = c.run_harness(exe, cases, env=env, timeout=900)
    items, idx, dis = [], [], []
    ditems, didx = [], []
    for x, o in zip(cases, obs):
        if "harness_err" in o:
            raise RuntimeError(o["harness_err"])
        fault = x["fault"]
        if fault == "container_hist":
            for li, (l, lo) in enumerate(zip(x["launches"], o["launches"])):
                cg = l.get("cgroup", "none")
                if cg == "dir" and lo.get("cgroup_unavailable"):
                    c.cov["cgroup_v2_unavailable"] = lo["cgroup_unavailable"]
                    cg = "unavailable"
                used = [k for k in ("exec_fd", "seccomp", "rlimits") if l.get(k)] + (["files"] if l.get("files_n", 3) > 3 else [])
                c.count(("container", li, json.dumps(l), json.dumps(x["launches"][:li])), nontrivial=l["cb"] != "none" or cg == "bad",
                        klass="container:%s:%s" % ("after" if l["sync_after"] else "before", l["cb"]) + (":cgroup-" + cg if "cgroup" in l else ""))
                canon = lambda what, **kw: dict({"kind": "sync-gate", "what": what, "runner": "container", "sync_after_exec": l["sync_after"], "callback": l["cb"],
                                                 "context_cancelled_before": l["precancel"]},
                                                **dict(kw, **({"cgroup": cg, "options": "+".join(used) or "-"} if "cgroup" in l else {})))
                rep_ = {"history": x["launches"][:li + 1], "observed": o["launches"][:li + 1],
                        "expected_of_last_launch": ("callback after exec: pid = the container init" if l["sync_after"] else
                                                    "callback strictly before the target's first instruction (no marker, not the target's image), pid = host-side pid of the "
                                                    "blocked child (NSpid in two namespaces, inside not 1; child of the container init; launcher's image; member of the "
                                                    "cgroup it was cloned into)") + "; a refusing callback or a failing step (bad cgroup descriptor: clone) gives status 8 "
                                                   "naming the step, the target never runs, no process of the launch is left; otherwise status 1 and the target ran"}
                if l["cb"] != "none" and lo["calls"] > 1:
                    c.finding_or_violation(canon("the callback was invoked more than once"), rep_)
                if not l["sync_after"]:
                    if lo["target_ran"] and l["cb"] != "none" and lo["calls"] == 0:
                        c.finding_or_violation(canon("the target ran although the callback was never invoked"), rep_)
                    if lo["calls"] and (lo.get("pid_is_init") or lo.get("exe_is_target") or lo.get("marker_at_callback")):
                        c.finding_or_violation(canon("at the callback the pid is not the blocked, not yet exec'ed child", seen={k: lo.get(k) for k in ("pid_is_init", "exe_is_target", "marker_at_callback")}), rep_)
                    if l["cb"] != "none" and lo["calls"] == 0 and lo["status"] != 8:
                        c.finding_or_violation(canon("the launch passed the gate (an exec result came back) although the callback was never invoked", status=lo["status"]), rep_)
                    if l["cb"] == "fail" and lo["status"] != 8:
                        c.finding_or_violation(canon("a refused launch produced an exec result instead of a launch error", status=lo["status"]), rep_)
                    if l["cb"] == "fail" and lo["target_ran"]:
                        c.finding_or_violation(canon("the target ran although the callback refused"), rep_)
                else:
                    if lo["calls"] and not lo.get("pid_is_init"):
                        c.finding_or_violation(canon("with the callback after exec the pid is not the container init"), rep_)
                if not l["sync_after"] and lo["calls"]:
                    # the pid designates that very process in the caller's pid namespace: a process of the container (visible in two pid
                    # namespaces, inside not as number 1), child of the container init, still in the launcher's image, alive and blocked,
                    # and - when the launch clones it into a cgroup - the member of that cgroup
                    ns = lo.get("nspid") or []
                    wrong = {}
                    if len(ns) < 2 or ns[-1] == 1:
                        wrong["nspid"] = ns
                    if not lo.get("exe_is_launcher"):
                        wrong["exe_is_launcher"] = lo.get("exe_is_launcher")
                    if not lo.get("ppid_is_init"):
                        wrong["ppid_is_init"] = lo.get("ppid_is_init")
                    if lo.get("state") not in ("S", "R", "D"):
                        wrong["state"] = lo.get("state")
                    if cg == "dir" and not lo.get("pid_in_cgroup"):
                        wrong["pid_in_cgroup"] = False
                        wrong["cgroup_members_at_callback"] = lo.get("cgroup_members_at_callback")
                    if wrong:
                        c.finding_or_violation(canon("the pid given to the callback does not designate the blocked child of the container init", seen=wrong), rep_)
                if cg == "bad":
                    # a launch step (the clone into the cgroup) fails: never runs, callback not reached, error names the step
                    if lo["status"] != 8:
                        c.finding_or_violation(canon("a launch whose clone step fails did not end as a launch error", status=lo["status"]), rep_)
                    elif "clone" not in lo["error"]:
                        c.finding_or_violation(canon("the error does not name the failing step", expected="clone", error=lo["error"][:80]), rep_)
                    if lo["target_ran"]:
                        c.finding_or_violation(canon("the target ran although a launch step failed"), rep_)
                    if lo["calls"]:
                        c.finding_or_violation(canon("the callback was invoked although the clone step failed"), rep_)
                if cg == "dir" and lo["status"] == 8 and lo.get("cgroup_members_after"):
                    c.finding_or_violation(canon("a process of a failed launch is still a member of its cgroup when the call returns",
                                                 members=lo["cgroup_members_after"], error=lo["error"][:60]), rep_)
                if l["cb"] == "fail" and lo["calls"] and lo["status"] != 8:
                    c.finding_or_violation(canon("a refusing callback does not make the launch fail", status=lo["status"]), rep_)
                if cg == "bad":
                    continue
                if l["cb"] != "fail" and not l["precancel"] and (lo["status"] != 1 or not lo["target_ran"]):
                    c.finding_or_violation(canon("a correct launch failed or the target did not run", status=lo["status"], error=lo["error"][:60]), rep_)
            if o["ping_err"] != "<nil>":
                c.finding_or_violation({"kind": "sync-gate", "what": "the environment is unusable after the history", "runner": "container"}, {"history": x["launches"], "observed": o})
            continue
        if fault == "launcher_death":
            c.count(("launcher_death", x["userns"]), nontrivial=True, klass="launcher-death")
            canon = lambda what, **kw: dict({"kind": "launcher-death", "what": what, "userns": x["userns"]}, **kw)
            if o["target_ran"]:
                c.finding_or_violation(canon("the target ran although the launcher died before approving"), {"case": x, "observed": o})
            if not o["exited"]:
                c.finding_or_violation(canon("the child was left waiting on the socket after the launcher died"), {"case": x, "observed": o})
            if not o.get("blocked_in_launcher_image"):
                c.finding_or_violation(canon("at the callback the pid is not the not yet exec'ed child"), {"case": x, "observed": o})
            ditems.append("(%s, true, %s, %s)" % (coq_bool(x["userns"]), coq_bool(o["target_ran"]), coq_bool(o["exited"])))
            didx.append(x["id"])
            continue
        if fault == "ptrace_runner":
            c.count("ptrace_runner", klass="ptrace-runner")
            if o["status"] == 8 and "chdir" not in o["errmsg"]:
                c.finding_or_violation({"kind": "launch-error", "what": "the error does not name the failing step", "runner": "ptrace",
                                        "fault": "chdir", "error": o["errmsg"]}, {"observed": o})
            elif o["status"] != 8:
                c.finding_or_violation({"kind": "launch-error", "what": "a failing launch step went unreported", "status": o["status"]}, {"observed": o})
            continue
        sync, cb = x["sync"], o["cb"]
        c.count((fault, sync, x["userns"], x.get("files_n"), x.get("ptrace")), nontrivial=fault != "none" or sync == "fail", klass="%s:%s" % (fault, sync))
        canon = lambda what, **kw: dict({"kind": "sync-gate", "what": what, "fault": fault, "callback": sync, "userns": x["userns"]},
                                        **dict(kw, **({"traced": True} if x.get("ptrace") else {})))
        err = o.get("err")
        # what must happen
        if fault == "none":
            exp = "callback" if sync == "fail" else None
        elif fault == "execve":
            exp = "callback" if sync == "fail" else "execve"
        else:
            exp = EXPECT[fault]
        if exp is None:
            if err:
                c.finding_or_violation(canon("a correct launch failed: " + err), {"observed": o})
            elif not o["target_ran"]:
                c.finding_or_violation(canon("Start returned success but the target did not run"), {"observed": o})
        else:
            if not err:
                c.finding_or_violation(canon("Start returned success although a step fails / the callback refused",
                                             target_ran=o["target_ran"]), {"observed": o})
            else:
                if o["target_ran"]:
                    c.finding_or_violation(canon("the target ran although the launch was refused"), {"observed": o})
                if o.get("leftover_child"):
                    c.finding_or_violation(canon("a child was left behind when Start returned the error", detail=o.get("leftover_detail")), {"observed": o})
                if exp == "callback":
                    if "callback refuses" not in err:
                        c.finding_or_violation(canon("the error is not the callback's", error=err), {"observed": o})
                elif o.get("loc") != exp or o.get("index", 0) != INDEX.get(fault, 0):
                    c.finding_or_violation(canon("the error does not name the failing step", expected=exp, got=o.get("loc"), index=o.get("index")),
                                           {"observed": o})
        should_call = sync != "none" and (fault in ("none", "execve"))
        if cb["called"] != should_call:
            c.finding_or_violation(canon("callback invoked: %s, expected: %s" % (cb["called"], should_call)), {"observed": o})
        if cb["called"]:
            if not cb.get("exe_is_launcher") or cb.get("exe_is_target") or cb.get("marker_exists") or not cb.get("ppid_is_launcher") \
                    or cb.get("state") not in ("S", "R", "D"):
                c.finding_or_violation(canon("at the callback the pid is not the blocked, not yet exec'ed child of the launcher", seen=cb), {"observed": o})
        # model side
        if err is None:
            res = 5
        elif "callback refuses" in err:
            res = 26
        else:
            res = 20 + LOCNUM.get(o.get("loc"), 3)
        items.append("(%s, %s, %d, %s, %s)" % (coq_bool(x["userns"] or fault in FORCES_USERNS), coq_bool(sync != "none"), res,
                                                coq_bool(o["target_ran"]), coq_bool(cb["called"])))
        idx.append(x["id"])
    body = HDR + "Definition cs := %s.\nDefinition M := Eval vm_compute in failing outcome_ok cs.\nPrint M.\n" % coq_list(items)
    body += "Definition ds : list (bool * bool * bool * bool) := %s.\nDefinition D := Eval vm_compute in failing death_ok ds.\nPrint D.\n" % coq_list(ditems)
    printed = c.coq_eval("sync", body, timeout=900)
    for i in c.parse_nums(c.parse_printed(printed, "M").replace("%N", "")):
        dis.append({"relation": "outcome_ok (observed launch outcome is a terminal outcome of the sync LTS)", "case": cases[idx[i]], "observed": obs[idx[i]]})
    for i in c.parse_nums(c.parse_printed(printed, "D").replace("%N", "")):
        dis.append({"relation": "death_ok (observed end after the launcher's death is an end of the sync LTS with the parent crashed)",
                    "case": cases[didx[i]], "observed": obs[didx[i]]})
    c.sample({"case": cases[1], "observed": obs[1]})
    c.sample({"case": cases[-2], "observed": obs[-2]})
    c.cov["launches"] = len(cases)
    c.cov["correspondence_disagreements"] = len(dis)
    if dis:
        c.cov["disagreement_samples"] = dis[:4]
        if not c.violations:
            c.violation({"kind": "correspondence-broken", "theorems_no_longer_about_the_code": c.theorems, "disagreements": dis[:8]}, no_input=True)

"""C07 — sync gate; failed launches never run and leave no child.
Tie: real launches through forkexec.Runner.Start with a fault induced at each reachable step by real inputs, with /
without callback (succeeding / failing), with / without user namespace; observed: inside the callback the image, state
and parent of the pid; afterwards the marker file of the target, wait4(-1), the ChildError.  Each outcome must be a
terminal outcome of the sync LTS for its configuration (evaluated in Coq) and name the induced fault."""
import json
import os

from vlib import coq_list, coq_bool

FINISH = dict(level="proof", rule=(
    "faults: none, clone (bad cgroup descriptor), id-map write (overlapping ranges), setgid (unmapped gid), dup3 (closed "
    "descriptor), mount k (source vanished), pivot root (missing), chdir (missing), rlimit k (above the hard limit without "
    "privilege), seccomp (invalid program), execve (missing executable), failing callback — x callback {none, ok, failing} x "
    "user namespace {no, yes} x 2 repetitions.  Non-trivial: a launch with an induced fault; distinct = distinct (fault, "
    "callback, namespace)."))

HDR = "From Coq Require Import List.\nImport ListNotations.\nFrom GS Require Import Launch.SyncLts Launch.EvalSync.\n"
EXPECT = {"clone": "clone", "idmap": "unshare_user_read", "setgid": "setgid", "setgroups": "setgroups", "dup3": "dup3", "mount": "mount", "pivot": "mount(tmpfs)",
          "chdir": "chdir", "rlimit": "setrlimt", "seccomp": "seccomp", "execve": "execve"}
INDEX = {"mount": 1, "rlimit": 1}
FORCES_USERNS = {"idmap", "setgid", "setgroups", "mount", "pivot", "rlimit"}
LOCNUM = {"clone": 1, "unshare_user_read": 2, "sync_read": 4, "execve": 5}


def run(c):
    exe = c.build_harness("h_c07")
    c.build_probe("target")
    scratch = c.tmpdir("scratch")
    env = dict(os.environ, VERIF_SCRATCH=scratch)
    cases = []
    r7 = c.rng("container-histories")
    for rep in range(2 if c.quick() else 10):
        for fault in ["none"] + list(EXPECT):
            for sync in ("none", "ok", "fail"):
                for userns in (False, True):
                    if fault in FORCES_USERNS and not userns:
                        continue
                    cases.append({"id": len(cases), "fault": fault, "sync": sync, "userns": userns})
    # the error record must reach the parent whatever descriptor numbers the caller's list makes the shuffle use
    for n in range(3, 40):
        cases.append({"id": len(cases), "fault": "execve", "sync": "none", "userns": False, "files_n": n})
        if n % 3 == 0:
            cases.append({"id": len(cases), "fault": "none", "sync": "ok", "userns": False, "files_n": n})
    for rep in range(2 if c.quick() else 10):
        for fault in ("execve", "chdir", "dup3"):
            for sync in ("none", "ok", "fail"):
                cases.append({"id": len(cases), "fault": fault, "sync": sync, "userns": False, "ptrace": True})
    # launches in one container environment: callback before / after exec, succeeding / refusing, live / cancelled context, in histories
    for h in range(3 if c.quick() else 20):
        ls = []
        for _ in range(r7.randint(4, 10)):
            ls.append({"sync_after": r7.random() < 0.4, "cb": r7.choice(["none", "ok", "ok", "fail"]), "precancel": r7.random() < 0.2})
        if h == 0:
            ls = [{"sync_after": True, "cb": "ok", "precancel": False}, {"sync_after": False, "cb": "ok", "precancel": False},
                  {"sync_after": False, "cb": "fail", "precancel": True}, {"sync_after": False, "cb": "fail", "precancel": False},
                  {"sync_after": False, "cb": "ok", "precancel": True}, {"sync_after": True, "cb": "fail", "precancel": False}, {"sync_after": False, "cb": "none", "precancel": False}]
        cases.append({"id": len(cases), "fault": "container_hist", "launches": ls})
    cases.append({"id": len(cases), "fault": "ptrace_runner"})
    # the launching process is killed while the callback runs (theorem C07_launcher_death)
    for k in range(4 if c.quick() else 24):
        cases.append({"id": len(cases), "fault": "launcher_death", "userns": k % 2 == 1, "delay_ms": [0, 1, 5, 30][k % 4] if k < 4 else r7.randrange(0, 60)})
    obs = c.run_harness(exe, cases, env=env, timeout=900)
    items, idx, dis = [], [], []
    ditems, didx = [], []
    for x, o in zip(cases, obs):
        if "harness_err" in o:
            raise RuntimeError(o["harness_err"])
        fault = x["fault"]
        if fault == "container_hist":
            for li, (l, lo) in enumerate(zip(x["launches"], o["launches"])):
                c.count(("container", li, json.dumps(l), json.dumps(x["launches"][:li])), nontrivial=l["cb"] != "none", klass="container:%s:%s" % ("after" if l["sync_after"] else "before", l["cb"]))
                canon = lambda what, **kw: dict({"kind": "sync-gate", "what": what, "runner": "container", "sync_after_exec": l["sync_after"], "callback": l["cb"],
                                                 "context_cancelled_before": l["precancel"]}, **kw)
                rep_ = {"history": x["launches"][:li + 1], "observed": o["launches"][:li + 1]}
                if l["cb"] != "none" and lo["calls"] > 1:
                    c.finding_or_violation(canon("the callback was invoked more than once"), rep_)
                if not l["sync_after"]:
                    if lo["target_ran"] and l["cb"] != "none" and lo["calls"] == 0:
                        c.finding_or_violation(canon("the target ran although the callback was never invoked"), rep_)
                    if lo["calls"] and (lo.get("pid_is_init") or lo.get("exe_is_target") or lo.get("marker_at_callback")):
                        c.finding_or_violation(canon("at the callback the pid is not the blocked, not yet exec'ed child", seen={k: lo.get(k) for k in ("pid_is_init", "exe_is_target", "marker_at_callback")}), rep_)
                    if l["cb"] != "none" and lo["calls"] == 0 and lo["status"] != 8:
                        c.finding_or_violation(canon("the launch passed the gate (an exec result came back) although the callback was never invoked", status=lo["status"]), rep_)
                    if l["cb"] == "fail" and lo["status"] != 8:
                        c.finding_or_violation(canon("a refused launch produced an exec result instead of a launch error", status=lo["status"]), rep_)
                    if l["cb"] == "fail" and lo["target_ran"]:
                        c.finding_or_violation(canon("the target ran although the callback refused"), rep_)
                else:
                    if lo["calls"] and not lo.get("pid_is_init"):
                        c.finding_or_violation(canon("with the callback after exec the pid is not the container init"), rep_)
                if l["cb"] == "fail" and lo["calls"] and lo["status"] != 8:
                    c.finding_or_violation(canon("a refusing callback does not make the launch fail", status=lo["status"]), rep_)
                if l["cb"] != "fail" and not l["precancel"] and (lo["status"] != 1 or not lo["target_ran"]):
                    c.finding_or_violation(canon("a correct launch failed or the target did not run", status=lo["status"], error=lo["error"][:60]), rep_)
            if o["ping_err"] != "<nil>":
                c.finding_or_violation({"kind": "sync-gate", "what": "the environment is unusable after the history", "runner": "container"}, {"history": x["launches"], "observed": o})
            continue
        if fault == "launcher_death":
            c.count(("launcher_death", x["userns"]), nontrivial=True, klass="launcher-death")
            canon = lambda what, **kw: dict({"kind": "launcher-death", "what": what, "userns": x["userns"]}, **kw)
            if o["target_ran"]:
                c.finding_or_violation(canon("the target ran although the launcher died before approving"), {"case": x, "observed": o})
            if not o["exited"]:
                c.finding_or_violation(canon("the child was left waiting on the socket after the launcher died"), {"case": x, "observed": o})
            if not o.get("blocked_in_launcher_image"):
                c.finding_or_violation(canon("at the callback the pid is not the not yet exec'ed child"), {"case": x, "observed": o})
            ditems.append("(%s, true, %s, %s)" % (coq_bool(x["userns"]), coq_bool(o["target_ran"]), coq_bool(o["exited"])))
            didx.append(x["id"])
            continue
        if fault == "ptrace_runner":
            c.count("ptrace_runner", klass="ptrace-runner")
            if o["status"] == 8 and "chdir" not in o["errmsg"]:
                c.finding_or_violation({"kind": "launch-error", "what": "the error does not name the failing step", "runner": "ptrace",
                                        "fault": "chdir", "error": o["errmsg"]}, {"observed": o})
            elif o["status"] != 8:
                c.finding_or_violation({"kind": "launch-error", "what": "a failing launch step went unreported", "status": o["status"]}, {"observed": o})
            continue
        sync, cb = x["sync"], o["cb"]
        c.count((fault, sync, x["userns"], x.get("files_n"), x.get("ptrace")), nontrivial=fault != "none" or sync == "fail", klass="%s:%s" % (fault, sync))
        canon = lambda what, **kw: dict({"kind": "sync-gate", "what": what, "fault": fault, "callback": sync, "userns": x["userns"]},
                                        **dict(kw, **({"traced": True} if x.get("ptrace") else {})))
        err = o.get("err")
        # what must happen
        if fault == "none":
            exp = "callback" if sync == "fail" else None
        elif fault == "execve":
            exp = "callback" if sync == "fail" else "execve"
        else:
            exp = EXPECT[fault]
        if exp is None:
            if err:
                c.finding_or_violation(canon("a correct launch failed: " + err), {"observed": o})
            elif not o["target_ran"]:
                c.finding_or_violation(canon("Start returned success but the target did not run"), {"observed": o})
        else:
            if not err:
                c.finding_or_violation(canon("Start returned success although a step fails / the callback refused",
                                             target_ran=o["target_ran"]), {"observed": o})
            else:
                if o["target_ran"]:
                    c.finding_or_violation(canon("the target ran although the launch was refused"), {"observed": o})
                if o.get("leftover_child"):
                    c.finding_or_violation(canon("a child was left behind when Start returned the error", detail=o.get("leftover_detail")), {"observed": o})
                if exp == "callback":
                    if "callback refuses" not in err:
                        c.finding_or_violation(canon("the error is not the callback's", error=err), {"observed": o})
                elif o.get("loc") != exp or o.get("index", 0) != INDEX.get(fault, 0):
                    c.finding_or_violation(canon("the error does not name the failing step", expected=exp, got=o.get("loc"), index=o.get("index")),
                                           {"observed": o})
        should_call = sync != "none" and (fault in ("none", "execve"))
        if cb["called"] != should_call:
            c.finding_or_violation(canon("callback invoked: %s, expected: %s" % (cb["called"], should_call)), {"observed": o})
        if cb["called"]:
            if not cb.get("exe_is_launcher") or cb.get("exe_is_target") or cb.get("marker_exists") or not cb.get("ppid_is_launcher") \
                    or cb.get("state") not in ("S", "R", "D"):
                c.finding_or_violation(canon("at the callback the pid is not the blocked, not yet exec'ed child of the launcher", seen=cb), {"observed": o})
        # model side
        if err is None:
            res = 5
        elif "callback refuses" in err:
            res = 26
        else:
            res = 20 + LOCNUM.get(o.get("loc"), 3)
        items.append("(%s, %s, %d, %s, %s)" % (coq_bool(x["userns"] or fault in FORCES_USERNS), coq_bool(sync != "none"), res,
                                                coq_bool(o["target_ran"]), coq_bool(cb["called"])))
        idx.append(x["id"])
    body = HDR + "Definition cs := %s.\nDefinition M := Eval vm_compute in failing outcome_ok cs.\nPrint M.\n" % coq_list(items)
    body += "Definition ds : list (bool * bool * bool * bool) := %s.\nDefinition D := Eval vm_compute in failing death_ok ds.\nPrint D.\n" % coq_list(ditems)
    printed = c.coq_eval("sync", body, timeout=900)
    for i in c.parse_nums(c.parse_printed(printed, "M").replace("%N", "")):
        dis.append({"relation": "outcome_ok (observed launch outcome is a terminal outcome of the sync LTS)", "case": cases[idx[i]], "observed": obs[idx[i]]})
    for i in c.parse_nums(c.parse_printed(printed, "D").replace("%N", "")):
        dis.append({"relation": "death_ok (observed end after the launcher's death is an end of the sync LTS with the parent crashed)",
                    "case": cases[didx[i]], "observed": obs[didx[i]]})
    c.sample({"case": cases[1], "observed": obs[1]})
    c.sample({"case": cases[-2], "observed": obs[-2]})
    c.cov["launches"] = len(cases)
    c.cov["correspondence_disagreements"] = len(dis)
    if dis:
        c.cov["disagreement_samples"] = dis[:4]
        if not c.violations:
            c.violation({"kind": "correspondence-broken", "theorems_no_longer_about_the_code": c.theorems, "disagreements": dis[:8]}, no_input=True)

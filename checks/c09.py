"""C09 — classification of every way a program can end, three runners.
Tie: (a) convertReply+convertReplyResult on all 2^16 wait-status words and on error combinations,
ptraceHandle.handle on generated states/words, checkUsage; (b) real runs of exit(n) / fatal signals in
the ptrace, namespace and container runners (sync before / after exec).
Oracle: the README table applied to what the program did."""
import os

from vlib import coq_list, coq_bool, coq_Z, coq_N

FINISH = dict(level="proof", rule=(
    "pure: all 65536 low wait-status words + words with event bits through the container conversion, "
    "every (wait error, socket error, no reply) combination, ptraceHandle.handle on generated (state, pid, word) "
    "triples, checkUsage on generated rusage/limits; real: exit(n) for every n in 0..255 and every signal 1..64 "
    "whose default action terminates (self-sent; external SIGKILL and synchronous faults in the namespace runner, "
    "whose main task is the init of its pid namespace) in each runner.  Non-trivial: every case (each is a "
    "different word / state / exit code / signal); distinct = distinct case bodies."))

HDR = "From GS Require Import Verdict.Status Verdict.Eval.\nOpen Scope N_scope.\n"
NONFATAL = {17, 18, 19, 20, 21, 22, 23, 28}
SIGNAME = {9: "SIGKILL", 24: "SIGXCPU", 25: "SIGXFSZ", 31: "SIGSYS", 5: "SIGTRAP"}


def table_exit(n):
    return (1 if n == 0 else 7, n)


def table_sig(s):
    st = 2 if s in (9, 24) else 4 if s == 25 else 5 if s == 31 else 6
    return (st, s)


def code(status, exit_, err):
    return (status << 40) | ((exit_ & 0xffffffff) << 1) | (1 if err else 0)


def run(c):
    exe = c.build_harness("h_c09")
    c.build_probe("target")
    scratch = c.tmpdir("scratch")
    env = dict(os.environ, VERIF_SCRATCH=scratch)
    dis = []
    nums = lambda out, ident="M": c.parse_nums(c.parse_printed(out, ident).replace("%N", "").replace("%Z", ""))

    # ---------------------------------------------------------------- pure
    cases = [{"id": 0, "kind": "convert", "lo": 0, "hi": 65536}]
    r = c.rng("words")
    hi_words = [(r.randrange(1, 1 << 16) << 16) | r.randrange(0, 1 << 16) for _ in range(2000 if c.quick() else 20000)]
    for i, w in enumerate(hi_words):
        cases.append({"id": 1 + i, "kind": "convert1", "w": w})
    combos = []
    for we in (False, True):
        for se in (False, True):
            for nr in (False, True):
                for w in (0, 0x300, 9, 0x8b, 0x57f, 0xffff, 0xff):
                    combos.append({"id": len(cases) + len(combos), "kind": "convert1", "w": w, "wait_err": we, "sock_err": se, "no_reply": nr})
    cases += combos
    obs = c.run_harness(exe, cases, env=env)
    codes = obs[0]["codes"]
    body = HDR
    CH = 2048
    for k in range(0, 65536, CH):
        body += "Definition M%d := Eval vm_compute in convert_mismatch %d %s.\nPrint M%d.\n" % (
            k, k, coq_list([coq_N(x) for x in codes[k:k + CH]]), k)
    out = c.coq_eval("convert", body)
    for k in range(0, 65536, CH):
        for w in nums(out, "M%d" % k)[:5]:
            dis.append({"relation": "convert_mismatch (convertReply;convertReplyResult vs container_classify)", "wait_status": w,
                        "observed_code": codes[w]})
    c.evaluations += 65536
    items = []
    for cs, o in zip(cases[1:], obs[1:]):
        items.append("(%s, %s, %s, %s, %s)" % (coq_bool(cs.get("wait_err", False)), coq_bool(cs.get("sock_err", False)),
                                              coq_bool(cs.get("no_reply", False)), coq_N(cs["w"]),
                                              coq_N(code(o["status"], o["exit"], o["err"]))))
        c.count(("convert1", cs["w"], cs.get("wait_err"), cs.get("sock_err"), cs.get("no_reply")), klass="convert1")
        if o["status"] == 8 and not o["err"]:
            c.finding_or_violation({"kind": "runner-error-without-explanation", "where": "container"}, {"case": cs, "observed": o})
    body = HDR + "Definition cs := %s.\nDefinition M := Eval vm_compute in failing convert1_ok cs.\nPrint M.\n" % coq_list(items)
    for i in nums(c.coq_eval("convert1", body))[:20]:
        dis.append({"relation": "convert1_ok", "case": cases[1 + i], "observed": obs[1 + i]})
    # oracle for the kernel-producible words
    for n in range(256):
        got = obs[0]["codes"][n << 8]
        if got != code(*table_exit(n), False):
            c.finding_or_violation({"kind": "table", "runner": "container", "exit": n}, {"observed_code": got})
    for s in range(1, 127):
        for core in (0, 0x80):
            got = obs[0]["codes"][s | core]
            if got != code(*table_sig(s), False):
                c.finding_or_violation({"kind": "table", "runner": "container", "signal": s}, {"observed_code": got})

    # handle
    r = c.rng("handle")
    P = 4194000
    hc = []
    nh = 3000 if c.quick() else 30000
    for i in range(nh):
        k = r.random()
        if k < 0.2:
            w = r.randrange(256) << 8
        elif k < 0.4:
            w = r.randrange(1, 127) | r.choice([0, 0x80])
        elif k < 0.85:
            sig = r.choice([5, 5, 5, 19, 24, 25, 11, 17, r.randrange(1, 65)])
            cause = r.choice([0, 0, 1, 2, 3, 4, 7, 6, 128, r.randrange(256)]) if sig == 5 else r.choice([0, 0, 0, 4, 7])
            w = 0x7f | (sig << 8) | (cause << 16)
        else:
            w = r.choice([0xffff, 0xff, 0x7f, r.randrange(1 << 32)])
        hc.append({"id": i, "kind": "handle", "pgid": P, "pid": r.choice([P, P, P + 1, P + 2]), "execved": r.random() < 0.6,
                   "traced": r.sample([P, P + 1, P + 2], r.randint(0, 3)), "w": w})
    ho = c.run_harness(exe, hc, env=env)
    items = []
    for x, o in zip(hc, ho):
        items.append("{| hc_pgid := %s; hc_pid := %s; hc_execved := %s; hc_traced := %s; hc_w := %s; hc_code := %s; hc_finished := %s; hc_execved' := %s; hc_traced' := %s |}" % (
            coq_Z(x["pgid"]), coq_Z(x["pid"]), coq_bool(x["execved"]), coq_list([coq_Z(p) for p in x["traced"]]), coq_N(x["w"]),
            coq_N(code(o["status"], o["exit"], o["err"])), coq_bool(o["finished"]), coq_bool(o["execved"]),
            coq_list([coq_Z(p) for p in (o["traced"] or [])])))
        c.count(("handle", x["pid"], x["execved"], tuple(sorted(x["traced"])), x["w"]),
                klass="handle:status%d" % o["status"])
        if o["status"] == 8 and not o["err"]:
            c.finding_or_violation({"kind": "runner-error-without-explanation", "where": "ptrace"}, {"case": x, "observed": o})
    body = HDR + "Definition cs := %s.\nDefinition M := Eval vm_compute in failing handle_ok cs.\nPrint M.\n" % coq_list(items)
    for i in nums(c.coq_eval("handle", body))[:20]:
        dis.append({"relation": "handle_ok (ptraceHandle.handle vs handle)", "case": hc[i], "observed": ho[i]})
    c.sample({"kind": "handle", "case": hc[0], "observed": ho[0]})

    # usage
    r = c.rng("usage")
    uc = []
    for i in range(500 if c.quick() else 5000):
        tl = r.choice([0, 1, 10 ** 9, 5 * 10 ** 8, 2 * 10 ** 8, 1500 * 10 ** 6, r.randrange(1 << 40)])
        ml = r.choice([0, 1, 1 << 20, 1 << 30, r.randrange(1 << 40), (1 << 64) - 1])
        sec = r.choice([0, 1, tl // 10 ** 9, r.randrange(100)])
        # just below, at and just above the bound (the comparison is in nanoseconds: one microsecond over is over)
        usec = r.choice([0, 1, 999999, (tl % 10 ** 9) // 1000, min(999999, (tl % 10 ** 9) // 1000 + r.choice([1, 2, 400, 999])), max(0, (tl % 10 ** 9) // 1000 - 1),
                         r.randrange(10 ** 6)])
        rss = r.choice([0, 1, ml >> 10, (ml >> 10) + 1, r.randrange(1 << 30)]) & ((1 << 52) - 1)
        uc.append({"id": i, "kind": "usage", "sec": sec, "usec": usec, "maxrss": rss, "tl": tl, "ml": ml & ((1 << 63) - 1)})
    uo = c.run_harness(exe, uc, env=env)
    items = ["(%s, %s, %s, %s, %s, (%s, %s, %s))" % (coq_Z(x["sec"]), coq_Z(x["usec"]), coq_N(x["maxrss"]), coq_Z(x["tl"]), coq_N(x["ml"]),
                                                     coq_Z(o["time"]), coq_N(o["mem"]), coq_N(o["status"])) for x, o in zip(uc, uo)]
    body = HDR + "Definition cs := %s.\nDefinition M := Eval vm_compute in failing usage_ok cs.\nPrint M.\n" % coq_list(items)
    for i in nums(c.coq_eval("usage", body))[:20]:
        dis.append({"relation": "usage_ok (checkUsage vs usage_status)", "case": uc[i], "observed": uo[i]})
    for x, o in zip(uc, uo):
        c.count(("usage", tuple(sorted(x.items()))), klass="usage")
        # the property in its own words: beyond the bound (by however little) is Time / Memory Limit Exceeded, the measurement is reported as measured
        t_ns, mem = x["sec"] * 10 ** 9 + x["usec"] * 1000, x["maxrss"] << 10
        want = 3 if mem > x["ml"] else 2 if t_ns > x["tl"] else 1
        if mem < 1 << 63 and t_ns < 1 << 62 and (o["status"] != want or o["time"] != t_ns or o["mem"] != mem):
            c.finding_or_violation({"kind": "usage", "what": "measured usage against the bounds: wrong verdict or measurement", "over_time_by_ns": t_ns - x["tl"],
                                    "expected_status": want, "status": o["status"]}, {"case": x, "observed": o}, klass="usage")
            break

    # ---------------------------------------------------------------- real runs
    rc = []

    def add(runner, args, expect, what, **kw):
        rc.append(dict({"id": len(rc), "kind": "run", "runner": runner, "args": args, "_expect": expect, "_what": what}, **kw))
    exits = list(range(256)) if not c.quick() else sorted(set(list(range(0, 256, 5)) + [1, 2, 126, 127, 128, 129, 137, 255]))
    sigs = [s for s in range(1, 65) if s not in NONFATAL]
    for runner in ("ptrace", "ns", "container", "container_after"):
        for n in exits:
            add(runner, ["exit", str(n)], table_exit(n), ("exit", n))
        # what children do is irrelevant: a child dies of a signal / exits non-zero, the main task exits n
        for s, n in ((11, 0), (9, 0), (31, 7), (6, 3), (-5, 0), (15, 0)):   # not 24/25: a limit signal of any task ends a ptrace run (by design, C08)
            add(runner, ["childsig", str(s), str(n)], table_exit(n), ("exit", n), _child=s)
        # job control: the main task stops, is continued by its own child and ends by itself
        for n in (0, 7):
            add(runner, ["stopcont", str(n)], table_exit(n), ("exit", n), _stop=True)
        # the same deaths with a core file written (the status word then carries the core flag)
        for k, s in (("segv", 11), ("ill", 4)):
            add(runner, ["fault", k], table_sig(s), ("sig", s), core=True)
        if runner != "ns":
            for s in (6, 31, 24, 25, 3):
                add(runner, ["sig", str(s)], table_sig(s), ("sig", s), core=True)
        if runner == "ns":
            # main task is pid 1 of its namespace: self-sent signals with default action are ignored by the kernel
            add(runner, ["sleep", "5000"], table_sig(9), ("sig", 9), kill=9, kill_after_ms=30)
            for k, s in (("segv", 11), ("ill", 4), ("trap", 5), ("fpe", 8)):
                add(runner, ["fault", k], table_sig(s), ("sig", s))
        else:
            for s in sigs:
                add(runner, ["sig", str(s)], table_sig(s), ("sig", s))
            # the same without the program touching its signal mask or dispositions first: signals the container init does not ignore
            for s in (10, 12, 13, 14, 24, 25, 26, 27, 29, 30, 34, 64):
                add(runner, ["sigplain", str(s)], table_sig(s), ("sig", s))
            for k, s in (("segv", 11), ("ill", 4), ("trap", 5), ("fpe", 8)):
                add(runner, ["fault", k], table_sig(s), ("sig", s))
            if runner != "container_after":   # with sync after exec the callback gets the pid of the container init
                add(runner, ["sleep", "5000"], table_sig(9), ("sig", 9), kill=9, kill_after_ms=30)
    ro = c.run_harness(exe, [{k: v for k, v in x.items() if not k.startswith("_")} for x in rc], env=env, timeout=900)
    items = []
    rid = {"ptrace": 0, "ns": 1, "container": 2, "container_after": 2}
    for x, o in zip(rc, ro):
        if "harness_err" in o:
            raise RuntimeError("harness: " + o["harness_err"])
        what, v = x["_what"]
        got = (o["status"], o["exit"])
        c.count(("run", x["runner"], what, v, x.get("kill"), x.get("_child"), x.get("core"), x.get("_stop")), klass="run:%s:%s" % (x["runner"], what))
        items.append("(%d, %s, %s, %s, %s)" % (rid[x["runner"]], coq_bool(what == "exit"), coq_bool("kill" not in x), coq_N(v),
                                               coq_N(code(o["status"], o["exit"], o["err"]))))
        # the table defines the exit value for Normal / Nonzero (the code) and Signalled (the signal number) only
        exp = x["_expect"]
        bad = got[0] != exp[0] or (exp[0] in (1, 6, 7) and got[1] != exp[1])
        if bad or o["err"]:
            c.finding_or_violation({"kind": "table", "runner": x["runner"], "program": " ".join(x["args"]),
                                    "signal_name": SIGNAME.get(v) if what == "sig" else None,
                                    "self_sent": "kill" not in x and x["args"][0] in ("sig", "sigplain"), "mask_untouched": x["args"][0] == "sigplain",
                                    **({"core_file_written": True} if x.get("core") else {}), **({"stopped_and_continued": True} if x.get("_stop") else {}),
                                    "expected": list(x["_expect"]), "observed": list(got)},
                                   {"case": {k: v2 for k, v2 in x.items() if not k.startswith("_")}, "observed": o},
                                   klass="table:%s:%s" % (x["runner"], what))
    body = HDR + "Definition cs := %s.\nDefinition M := Eval vm_compute in failing run_ok cs.\nPrint M.\n" % coq_list(items)
    for i in nums(c.coq_eval("runs", body))[:20]:
        dis.append({"relation": "run_ok (real run vs classifier model on the kernel's status word)",
                    "case": {k: v for k, v in rc[i].items() if not k.startswith("_")}, "observed": ro[i]})
    c.sample({"kind": "run", "case": {k: v for k, v in rc[3].items() if not k.startswith("_")}, "observed": ro[3]})
    c.sample({"kind": "run", "case": {k: v for k, v in rc[-1].items() if not k.startswith("_")}, "observed": ro[-1]})
    c.cov["real_runs"] = len(rc)
    c.cov["exhaustive"] = False
    c.cov["convert_words_exhaustive"] = "all 65536 low words"
    c.cov["correspondence_disagreements"] = len(dis)
    c.nontrivial.update("w%d" % w for w in range(65536))
    if dis:
        c.cov["disagreement_samples"] = dis[:5]
        # a disagreement that is fully explained by a listed known finding is not a new violation
        unexplained = [d for d in dis if not _explained(c, d)]
        if unexplained and not c.violations:
            c.violation({"kind": "correspondence-broken", "theorems_no_longer_about_the_code": c.theorems,
                         "disagreements": unexplained[:20]}, no_input=True)


def _explained(c, d):
    return False

"""C04 — the program starts in exactly the requested security state, for every option set.
Tie: the state probe is launched by pkg/forkexec under EVERY combination of the nine options whose code paths interact
(credential, drop-caps, no-new-privs, seccomp, ptrace, stop-before-seccomp, sync callback, unshare-cgroup-after-sync, user
namespace) crossed with random draws of the others (ids, group lists, NoSetGroups, gid-map setgroups policy, pid / mount / uts
/ ipc / net / cgroup namespaces, work dir, host and domain name); the harness is the parent and, for ptrace configurations,
the tracer.  The probe's self-report (capget, securebits, no_new_privs, seccomp mode and filter count, ids, session, cwd,
uname, /proc/self/ns) is compared in Coq with `state_at_exec` of the same configuration and by an independent oracle with the
statement of the property.  Launches with an id map the kernel refuses must fail and never run the target."""
import itertools
import json
import os

from vlib import coq_list

FINISH = dict(level="proof", rule=(
    "all 512 combinations of the nine interacting options x 1 (thorough: 8) random draw(s) of: uid in {0, 1000, 65534}, gid, "
    "groups (empty / 1..3 entries), NoSetGroups, gid-map setgroups policy, subsets of {pid, mnt, uts, ipc, net, cgroup} namespaces, work "
    "dir, host / domain name (with a new uts namespace only); plus launches with refused uid / gid maps.  Non-trivial: a combination "
    "with at least three of the nine options set; distinct = distinct configurations."))

HDR = "From Coq Require Import List NArith.\nImport ListNotations.\nFrom GS Require Import Launch.SecState Launch.EvalSec.\n"
NINE = ["cred", "dropcaps", "nnp", "seccomp", "ptrace", "stop", "sync", "ucas", "userns"]


def cb(b):
    return "true" if b else "false"


def copt(v):
    return "None" if v is None else "Some %d%%N" % v


def run(c):
    exe = c.build_harness("h_c04")
    c.build_probe("target")
    scratch = c.tmpdir("scratch")
    os.chmod(scratch, 0o777)
    for p in (scratch, os.path.dirname(scratch), os.path.dirname(os.path.dirname(scratch))):
        try:
            os.chmod(p, os.stat(p).st_mode | 0o755)
        except OSError:
            pass
    env = dict(os.environ, VERIF_SCRATCH=scratch)
    r = c.rng("configs")
    reps = 1 if c.quick() else 8
    strs = {}
    sid = lambda s: strs.setdefault(s, len(strs) + 1)
    cases = []
    for bits in itertools.product([False, True], repeat=9):
        for _ in range(reps):
            o = dict(zip(NINE, bits))
            ns = ["user"] if o["userns"] else []
            for n in ["pid", "mnt", "uts", "ipc", "net", "cgroup"]:
                if r.random() < 0.3:
                    ns.append(n)
            x = {"id": len(cases), "ns": ns, "dropcaps": o["dropcaps"], "nnp": o["nnp"], "seccomp": o["seccomp"], "ptrace": o["ptrace"],
                 "stop": o["stop"], "sync": o["sync"], "ucas": o["ucas"], "gidmap_setgroups": r.random() < 0.5}
            if o["cred"]:
                groups = r.choice([[], [], [7], [5, 6, 7]])
                nsg = r.random() < 0.3
                if o["userns"] and not x["gidmap_setgroups"] and groups:
                    nsg = True          # setgroups is denied in such a namespace: the kernel refuses the launch (checked separately)
                x["cred"] = {"uid": r.choice([0, 1000, 65534]), "gid": r.choice([0, 1001, 65534]), "groups": groups, "nosetgroups": nsg}
            if r.random() < 0.5:
                x["workdir"] = r.choice(["/tmp", "/", "/usr/lib"])
            if "uts" in ns and r.random() < 0.7:
                x["host"] = r.choice(["verif-host", "h"])
            if "uts" in ns and r.random() < 0.7:
                x["domain"] = r.choice(["verif.domain", "d"])
            cases.append(x)
    nreg = len(cases)
    # refused launches
    for bad in (True, "gid"):
        cases.append({"id": len(cases), "ns": ["user"], "badmap": bad, "dropcaps": False, "nnp": False, "seccomp": False, "ptrace": False, "stop": False,
                      "sync": False, "ucas": False, "_refused": "idmap"})
    cases.append({"id": len(cases), "ns": ["user"], "gidmap_setgroups": False, "cred": {"uid": 0, "gid": 0, "groups": [5], "nosetgroups": False},
                  "dropcaps": False, "nnp": False, "seccomp": False, "ptrace": False, "stop": False, "sync": False, "ucas": False, "_refused": "setgroups"})
    # the launcher has real ids 1000 and effective ids 0 (a set-uid-root launcher) and asks for the ids 1000: every id must be switched
    for dc in (False, True):
        for sy in (False, True):
            cases.append({"id": len(cases), "ns": [], "split_ids": True, "cred": {"uid": 1000, "gid": 1000, "groups": [1000], "nosetgroups": False},
                          "dropcaps": dc, "nnp": False, "seccomp": False, "ptrace": False, "stop": False, "sync": sy, "ucas": False, "_split": True})
    # the launcher lacks CAP_SETPCAP: the secure bits cannot be locked, so capabilities could come back at exec; the launch must be refused
    for ucas in (False, True):
        cases.append({"id": len(cases), "ns": [], "nosetpcap": True, "dropcaps": True, "nnp": False, "seccomp": False, "ptrace": False, "stop": False,
                      "sync": ucas, "ucas": ucas, "_refused": "securebits"})
    obs = c.run_harness(exe, [{k: v for k, v in x.items() if not k.startswith("_")} for x in cases], env=env, timeout=1500)
    cwd0 = obs[0]["own_cwd"]
    un = os.uname()
    items, src = [], []
    for x, o in zip(cases, obs):
        canon = lambda what, **kw: dict({"kind": "secstate", "what": what, "options": sorted(k for k in NINE[:-1] + ["userns"] if x.get(k) or (k == "userns" and "user" in x["ns"]) or (k == "cred" and "cred" in x))}, **kw)
        rep = {"configuration": {k: v for k, v in x.items() if not k.startswith("_")}, "observed": {k: v for k, v in o.items() if k not in ("own_ns", "own_cwd")}}
        if "harness_err" in o:
            raise RuntimeError(o["harness_err"])
        if x.get("_refused"):
            c.count(json.dumps(x), nontrivial=True, klass="refused:" + x["_refused"])
            if "err" not in o or o.get("state") is not None:
                c.finding_or_violation(canon("a launch the kernel refuses (%s) reports success or runs the target" % x["_refused"]), rep, klass="refused")
            continue
        st = o.get("state")
        nset = sum(1 for k in NINE[:-1] if x.get(k)) + ("cred" in x) + ("user" in x["ns"])
        c.count(json.dumps(x), nontrivial=nset >= 3, klass="launch")
        for k in NINE[:-1]:
            if x.get(k) or (k == "cred" and "cred" in x):
                c.dist["opt." + k] = c.dist.get("opt." + k, 0) + 1
        if "err" in o or st is None or o.get("hang"):
            c.finding_or_violation(canon("the launch fails or the target does not run", error=str(o.get("err"))[:60], hang=bool(o.get("hang"))), rep, klass="launch-fails")
            continue
        own = o["own_ns"]
        cr = x.get("cred")
        want_drop = bool(cr) or x["dropcaps"]
        caps = any(st["cap_eff"]) or any(st["cap_perm"])
        inh = any(st["cap_inh"]) or st["ambient"] > 0
        bad = []
        if want_drop and (caps or inh):
            bad.append("capabilities left although a credential or cap dropping was requested")
        if want_drop and (st["securebits"] & 3) != 3:
            bad.append("NOROOT not set and locked: root would regain privileges on exec")
        if not want_drop and not caps and (st["uid"][1] == 0):
            bad.append("capabilities dropped although not requested")
        if bool(st["nnp"]) != (x["nnp"] or x["seccomp"]):
            bad.append("no_new_privs does not match the request")
        if (st["seccomp"] == 2) != x["seccomp"] or st["filters"] != (1 if x["seccomp"] else 0):
            bad.append("seccomp filter installed %d times, requested %s" % (st["filters"], x["seccomp"]))
        if cr:
            if st["uid"] != [cr["uid"]] * 3 or st["gid"] != [cr["gid"]] * 3:
                bad.append("uid / gid are not the requested ones")
            skip = cr["nosetgroups"] or ("user" in x["ns"] and not x["gidmap_setgroups"] and not cr["groups"])
            if st["groups"] != ([4242, 4243] if skip else cr["groups"]):
                bad.append("supplementary groups are not the requested ones")
        elif st["uid"] != [0, 0, 0] or st["gid"] != [0, 0, 0] or st["groups"] != [4242, 4243]:
            bad.append("identity changed although no credential was requested")
        if st["sid"] != st["pid"]:
            bad.append("not the leader of its own session")
        if st["cwd"] != x.get("workdir", cwd0):
            bad.append("working directory is not the requested one")
        if st["host"] != x.get("host", un.nodename) or st["domain"] != x.get("domain", st["domain"] if "domain" not in x else None):
            bad.append("host / domain name is not the requested one")
        for n in ["user", "pid", "mnt", "uts", "ipc", "net", "cgroup"]:
            new = st["ns"][n] != own[n]
            want = n in x["ns"] or (n == "cgroup" and x["ucas"])
            if new != want:
                bad.append("namespace %s: new=%s requested=%s" % (n, new, want))
        if x["ptrace"] and 5 not in (o.get("stops") or []):
            bad.append("ptrace requested but the child never stopped for its tracer")
        if x["sync"] != o["callback_called"]:
            bad.append("sync callback called=%s configured=%s" % (o["callback_called"], x["sync"]))
        for b in bad:
            c.finding_or_violation(canon(b.split(":")[0].split(" %d")[0]), dict(rep, detail=b), klass=b.split(":")[0][:40])
        if x.get("_split"):
            continue        # the model's launcher is plain root: these launches are judged by the oracle above only
        # Coq
        cfg = ("{| f_cred := %s; f_gidmap := %s; f_gidmap_setgroups := %s; f_dropcaps := %s; f_nnp := %s; f_seccomp := %s; f_ptrace := %s; "
               "f_stop := %s; f_sync := %s; f_ucas := %s; f_workdir := %s; f_host := %s; f_domain := %s |}") % (
            "None" if not cr else "Some {| c_uid := %d; c_gid := %d; c_groups := %s; c_nosetgroups := %s |}" % (
                cr["uid"], cr["gid"], coq_list(["%d%%N" % g for g in cr["groups"]]), cb(cr["nosetgroups"])),
            cb("user" in x["ns"]), cb(x["gidmap_setgroups"]), cb(x["dropcaps"]), cb(x["nnp"]), cb(x["seccomp"]), cb(x["ptrace"]), cb(x["stop"]),
            cb(x["sync"]), cb(x["ucas"]), copt(sid(x["workdir"]) if "workdir" in x else None), copt(sid(x["host"]) if "host" in x else None),
            copt(sid(x["domain"]) if "domain" in x else None))
        s0 = "start 0 0 [4242; 4243]%%N (Some %d%%N) (Some %d%%N) (Some %d%%N)" % (sid(cwd0), sid(un.nodename), sid("<domain0>"))
        dom = sid(x["domain"]) if "domain" in x and st["domain"] == x["domain"] else (sid("<domain0>") if "domain" not in x else sid("<other>"))
        ob = "(%d%%N, %d%%N, %s, %s, %s, %s, %s, %d, %s, Some %d%%N, Some %d%%N, Some %d%%N, %s)" % (
            st["uid"][1], st["gid"][1], coq_list(["%d%%N" % g for g in st["groups"]]), cb(caps), cb(inh), cb(st["securebits"] & 1), cb(st["nnp"]),
            max(st["filters"], 0), cb(st["sid"] == st["pid"]), sid(st["cwd"]), sid(st["host"]), dom, cb(st["ns"]["cgroup"] != own["cgroup"]))
        items.append("(%s, %s, %s, Some %s)" % (cfg, s0, cb("cgroup" in x["ns"]), ob))
        src.append(x["id"])
    # ---- launches inside one pooled container: every launch starts in the state of its own parameters, whatever the earlier ones had
    nhist = 6 if c.quick() else 40
    hist = [{"id": 10000 + i, "mode": "container", "launches": [{"seccomp": r.random() < 0.5, "sync": r.random() < 0.5, "sync_after": r.random() < 0.3}
                                                                 for _ in range(r.randint(4, 10))]} for i in range(nhist)]
    ho = c.run_harness(exe, hist, env=env, timeout=900)
    for x, o in zip(hist, ho):
        if "harness_err" in o:
            raise RuntimeError(o["harness_err"])
        c.count(json.dumps(x["launches"]), nontrivial=len(set(l["seccomp"] for l in x["launches"])) == 2, klass="container-history")
        for li, (l, so) in enumerate(zip(x["launches"], o["states"])):
            st = so.get("state")
            rep = {"launches_on_one_container": x["launches"][:li + 1], "observed": so}
            cz = lambda what: {"kind": "secstate", "what": what, "runner": "container"}
            if so["status"] != 1 or not st:
                c.finding_or_violation(cz("the launch fails or the target does not run"), rep, klass="container-launch")
                continue
            caps = any(st["cap_eff"]) or any(st["cap_perm"]) or any(st["cap_inh"])
            if (st["seccomp"] == 2) != l["seccomp"]:
                c.finding_or_violation(cz("seccomp filter installed although none was given, or missing although given"), rep, klass="container-seccomp")
            if caps or (st["securebits"] & 3) != 3 or st["nnp"] != 1 or st["sid"] != st["pid"]:
                c.finding_or_violation(cz("capabilities / NOROOT / no_new_privs / session are not those of a container launch"), rep, klass="container-state")
            cfg = ("{| f_cred := None; f_gidmap := true; f_gidmap_setgroups := false; f_dropcaps := true; f_nnp := true; f_seccomp := %s; f_ptrace := false; "
                   "f_stop := false; f_sync := true; f_ucas := false; f_workdir := None; f_host := None; f_domain := None |}") % cb(l["seccomp"])
            s0 = "start %d %d %s (Some %d%%N) (Some %d%%N) (Some %d%%N)" % (st["uid"][1], st["gid"][1], coq_list(["%d%%N" % g for g in st["groups"]]),
                                                                           sid(st["cwd"]), sid(st["host"]), sid("<domain0>"))
            ob = "(%d%%N, %d%%N, %s, %s, %s, %s, %s, %d, %s, Some %d%%N, Some %d%%N, Some %d%%N, false)" % (
                st["uid"][1], st["gid"][1], coq_list(["%d%%N" % g for g in st["groups"]]), cb(caps), cb(any(st["cap_inh"])), cb(st["securebits"] & 1), cb(st["nnp"]),
                1 if st["seccomp"] == 2 else 0, cb(st["sid"] == st["pid"]), sid(st["cwd"]), sid(st["host"]), sid("<domain0>"))
            items.append("(%s, %s, false, Some %s)" % (cfg, s0, ob))
            src.append(None)
    # ---- containers whose program runs under a generated credential: the ids inside are the configured ones, each defaulting (to 1000) on its own
    idc = [{"id": 20000 + k, "mode": "container_ids", "host_uid": 20001 + k, "host_gid": 30001 + k, "cuid": cu, "cgid": cg}
           for k, (cu, cg) in enumerate([(0, 0), (2000, 0), (0, 3000), (2000, 3000), (1, 1)])]
    ido = c.run_harness(exe, idc, env=env, timeout=300)
    for x, o in zip(idc, ido):
        if "harness_err" in o:
            raise RuntimeError(o["harness_err"])
        c.count(("container-ids", x["cuid"], x["cgid"]), nontrivial=True, klass="container-ids")
        st = o.get("state")
        wu, wg = x["cuid"] or 1000, x["cgid"] or 1000
        cz = lambda what, **kw: dict({"kind": "secstate", "what": what, "runner": "container", "container_uid_configured": x["cuid"], "container_gid_configured": x["cgid"]}, **kw)
        if o["status"] != 1 or not st:
            c.finding_or_violation(cz("the launch fails or the target does not run", error=str(o.get("error"))[:60]), {"case": x, "observed": o}, klass="container-ids")
        elif st["uid"] != [wu] * 3 or st["gid"] != [wg] * 3:
            c.finding_or_violation(cz("the program's ids inside the container are not the configured ones", uid=st["uid"], gid=st["gid"]), {"case": x, "observed": o}, klass="container-ids")
    # ---- launches with different explicit id mappings at the same time: every program is under the mapping of ITS configuration
    cio = c.run_harness(exe, [{"id": 30000, "mode": "concurrent_idmaps", "workers": 8, "rounds": 60 if c.quick() else 600}], env=env, timeout=900)[0]
    if "harness_err" in cio:
        raise RuntimeError(cio["harness_err"])
    c.count("concurrent-idmaps", nontrivial=True, klass="concurrent-idmaps")
    c.cov["concurrent_idmap_launches"] = cio["launches"]
    if cio["wrong"]:
        w0 = cio["wrong"][0]
        c.finding_or_violation({"kind": "secstate", "what": "a program started in a new user namespace is under an id mapping other than the configured one (launches running at the same time)",
                                "failed_to_start": bool(w0["Err"])}, {"workers": 8, "mapping_of_worker_w": "uid 0 -> 1000+w (w+1 ids), gid 0 -> 3000+w (w+1 ids)",
                                                                      "wrong_launches": cio["wrong"]}, klass="concurrent-idmaps")
    # ---- the text the launcher writes to uid_map / gid_map (seen with strace on the launching thread) against Launch/IdMap.v, in Coq
    import re, subprocess, codecs
    fexe = c.build_harness("h_fdtrace")
    fdir = c.tmpdir("idmaps")
    trp = os.path.join(fdir, "trace.txt")
    pr = subprocess.run(["strace", "-o", trp, "-s", "4096", "-e", "trace=openat,write,close", fexe, "idmaps"], env=dict(env, VERIF_SCRATCH=fdir),
                        stdout=subprocess.PIPE, stderr=subprocess.PIPE, timeout=300)
    if pr.returncode != 0:
        raise RuntimeError("h_fdtrace idmaps under strace: rc %d %s" % (pr.returncode, pr.stderr.decode(errors="replace")[-300:]))
    conf = {}
    for ln in pr.stdout.decode().splitlines():
        if ln.startswith("{"):
            j = json.loads(ln)
            conf[j["case"]] = j
    texts, cur, mapfd = {}, None, {}
    for ln in open(trp, errors="replace"):
        m = re.match(r'write\(-1, "case:(end:)?idmap(\d+)"', ln)
        if m:
            cur = None if m.group(1) else int(m.group(2))
            mapfd = {}
            continue
        if cur is None:
            continue
        m = re.match(r'openat\(.*"/proc/\d+/(uid_map|gid_map)".*\) = (\d+)', ln)
        if m:
            mapfd[int(m.group(2))] = m.group(1)
            continue
        m = re.match(r'write\((\d+), "((?:[^"\\]|\\.)*)"(\.\.\.)?, \d+\)\s+= (-?\d+)', ln)
        if m and int(m.group(1)) in mapfd:
            texts[(cur, mapfd[int(m.group(1))])] = codecs.decode(m.group(2), "unicode_escape").encode("latin-1")
            continue
        m = re.match(r'close\((\d+)\)', ln)
        if m:
            mapfd.pop(int(m.group(1)), None)
    iitems, isrc = [], []
    for k, j in sorted(conf.items()):
        for which, eid in (("uid", j["euid"]), ("gid", j["egid"])):
            t = texts.get((k, which + "_map"))
            c.count(("idmap-text", k, which), nontrivial=True, klass="idmap-text")
            if t is None or not j["started"]:
                c.finding_or_violation({"kind": "secstate", "what": "a launch with id mappings fails or writes no mapping", "mappings": j[which]}, {"case": j, "text": None if t is None else t.decode()},
                                       klass="idmap-text")
                continue
            cfgs = "None" if j[which] is None else "(Some [%s])" % "; ".join("(%d, %d, %d)" % tuple(x) for x in j[which])
            iitems.append("(%s, %d, [%s])" % (cfgs, eid, "; ".join(str(b) for b in t)))
            isrc.append((k, which, j[which], t.decode()))
            # independent oracle: the lines of the text are the configured triples
            want = [[0, eid, 1]] if j[which] is None else j[which]
            got = [[int(f) for f in l.split(" ")] for l in t.decode().split("\n") if l]
            if got != want:
                c.finding_or_violation({"kind": "secstate", "what": "the id mapping written for the child is not the configured one", "configured": want, "written": got},
                                       {"case": j, "text": t.decode()}, klass="idmap-text")
    body = ("From Coq Require Import List NArith.\nImport ListNotations.\nOpen Scope N_scope.\nFrom GS Require Import Launch.IdMap.\n"
            "Definition cs : list (option (list (N * N * N)) * N * list N) := %s.\nDefinition MI := Eval vm_compute in failing idmap_ok cs.\nPrint MI.\n" % coq_list(iitems))
    ibad = c.parse_nums(c.parse_printed(c.coq_eval("idmaps", body), "MI").replace("%N", ""))
    c.cov["idmap_texts_compared_in_coq"] = len(iitems)
    idmap_dis = [{"relation": "idmap_ok (text written to uid_map / gid_map = Launch/IdMap.written, and reads back as the configuration)", "case": isrc[i][0], "which": isrc[i][1],
                  "configured": isrc[i][2], "written": isrc[i][3]} for i in ibad]
    c.cov["container_launch_histories"] = nhist
    c.sample({"configuration": cases[300], "probe_report": {k: v for k, v in (obs[300].get("state") or {}).items() if k != "ns"}, "stops": obs[300].get("stops")})
    dis = list(idmap_dis)
    for s0 in range(0, len(items), 600):
        body = HDR + "Definition cs : list (config * kst * bool * option obs) := %s.\nDefinition M := Eval vm_compute in failing state_ok cs.\nPrint M.\n" % coq_list(items[s0:s0 + 600])
        for i in c.parse_nums(c.parse_printed(c.coq_eval("states%d" % s0, body, timeout=1200), "M").replace("%N", "")):
            j = src[s0 + i]
            if j is None:
                dis.append({"relation": "state_ok (probe's self-report inside the container = state_at_exec of the launch's parameters)", "item": items[s0 + i][:400]})
                continue
            dis.append({"relation": "state_ok (probe's self-report = state_at_exec of the configuration)", "configuration": cases[j],
                        "observed": {k: v for k, v in obs[j].items() if k != "own_ns"}})
    c.cov["launches"] = len(cases)
    c.cov["interacting_option_combinations"] = 512
    c.cov["traces_validated_against_impl"] = len(items)
    c.cov["correspondence_disagreements"] = len(dis)
    if dis:
        c.cov["disagreement_samples"] = dis[:3]
        if not c.violations:
            c.violation({"kind": "correspondence-broken", "theorems_no_longer_about_the_code": c.theorems, "disagreements": dis[:5]}, no_input=True)

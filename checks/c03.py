"""C03 — handler verdicts are enforced.
Tie: really traced programs (trees of forked / vforked processes and threads) issue marker syscalls mkdirat(DIR/m_<id>_<d>); the
handler decides allow / ban / kill from the marker's name.  Observed: the program's own record of every return value, the
directories that exist afterwards, the verdict, the handler's consultations, and the tracer's own event log (wait statuses and
ptrace requests, verif hook).  The log of every run is replayed in Coq against `handle` — the function the theorem composes
with the kernel rules — including the verdict; the oracle demands the statement of the property on the side effects."""
import json
import os

from vlib import coq_list

FINISH = dict(level="proof", rule=(
    "scripts of 1..7 tasks (main, forked and vforked children, threads; up to 3 generations) x 1..6 marker syscalls each with "
    "decisions drawn from {allow 55%, ban 35%, kill 10%}, some allowed markers pre-existing (real result EEXIST); 8 runs in "
    "parallel; plus a kill-verdict stress (a task whose first marker is killed while 16 runs compete for the CPUs) and runs "
    "under a filter that kills.  Non-trivial: a run with at least two tasks and at least one ban or kill; distinct = distinct scripts."))

HDR = "From Coq Require Import List NArith ZArith.\nImport ListNotations.\nFrom GS Require Import Verdict.Status Tracer.Enforce Tracer.EvalEnforce.\n"


def gen_script(r, nid):
    ntask = r.randint(1, 7)
    kinds = {0: "main"}
    steps = {k: [] for k in range(ntask)}
    free = list(range(1, ntask))
    ids = {}
    order = [0]
    while order:
        k = order.pop(0)
        for _ in range(r.randint(1, 6)):
            x = r.random()
            if x < 0.25 and free and kinds[k] != "vfork":
                c = free.pop(0)
                how = r.choice(["fork", "vfork", "thread"])
                kinds[c] = how
                steps[k].append((how, c, "-"))
                order.append(c)
            elif x < 0.32 and kinds[k] != "vfork":
                steps[k].append(("wait", 0, "-"))
            else:
                nid[0] += 1
                d = r.choices(["a", "b", "k"], [55, 35, 10])[0]
                pre = d == "a" and r.random() < 0.15
                ids[nid[0]] = (d, pre, k)
                steps[k].append(("s", nid[0], d))
    # a task that created processes waits for them: when the main program exits the run is over and its descendants are
    # killed by the runner (by design), so an unfinished descendant would say nothing about enforcement
    for k in steps:
        if any(s[0] in ("fork", "vfork", "thread") for s in steps[k]) and kinds.get(k) != "vfork":
            steps[k].append(("wait", 0, "-"))
    text = ""
    for k in range(ntask):
        if k in kinds:
            text += "task %d -\n" % k + "".join("%s %d %s\n" % s for s in steps[k])
    return text, ids, kinds


def parse_trace(lines):
    """-> list of (pid, ws, act, skip, reqs)"""
    steps, cur = [], None
    for ln in lines:
        k, a, b = ln.split()
        a, b = int(a), int(b)
        if k == "wait":
            cur = [a, b, None, False, []]
            steps.append(cur)
        elif k == "killall" or cur is None:
            continue
        elif k == "setopt":
            cur[4].append("LSet")
        elif k == "cont":
            cur[4].append("LCont (%d)%%Z" % b)
        elif k == "decide":
            cur[2] = b
        elif k == "skip":
            cur[3] = True
    return steps


def run(c):
    exe = c.build_harness("h_c03")
    c.build_probe("target")
    scratch = c.tmpdir("runs")
    r = c.rng("scripts")
    nid = [0]
    batches = []
    nbatch, per = (6, 16) if c.quick() else (40, 24)
    meta = []
    n = 0

    def add_run(text, ids, kinds, **kw):
        nonlocal n
        d = "%s/r%d" % (scratch, n)
        os.makedirs(d + "/d")
        for i, (dec, pre, _) in ids.items():
            if pre:
                os.mkdir("%s/d/m_%d_%s" % (d, i, dec))
        open(d + "/script", "w").write(text)
        n += 1
        meta.append((text, ids, kinds, kw))
        return dict({"script": d + "/script", "dir": d + "/d", "out": d + "/out"}, **kw)

    for b in range(nbatch):
        # the configured error of a ban changes from batch to batch (EACCES, ENOENT, EPERM, EACCES again, ...)
        batches.append({"id": b, "parallel": 8, "ban_ret": [0, 2, 1, 13, 38][b % 5], "runs": [add_run(*gen_script(r, nid), ban_ret=[13, 2, 1, 13, 38][b % 5]) for _ in range(per)]})
    # kill-verdict stress: the killed syscall must never take effect, whatever the scheduling
    stress = []
    for i in range(160 if c.quick() else 1600):
        nid[0] += 1
        shape = i % 3
        if shape == 0:
            text, ids, kinds = "task 0 -\ns %d k\n" % nid[0], {nid[0]: ("k", False, 0)}, {0: "main"}
        elif shape == 1:
            a = nid[0]
            nid[0] += 1
            text = "task 0 -\nthread 1 -\ns %d k\ntask 1 -\ns %d a\n" % (a, nid[0])
            ids, kinds = {a: ("k", False, 0), nid[0]: ("a", False, 1)}, {0: "main", 1: "thread"}
        else:
            a = nid[0]
            nid[0] += 1
            text = "task 0 -\nfork 1 -\nwait 0 -\ns %d a\ntask 1 -\ns %d k\n" % (nid[0], a)
            ids, kinds = {a: ("k", False, 1), nid[0]: ("a", False, 0)}, {0: "main", 1: "fork"}
        stress.append(add_run(text, ids, kinds))
    batches.append({"id": nbatch, "parallel": 16, "runs": stress})
    fk = []
    for i in range(6):
        nid[0] += 1
        # the syscall the filter kills is issued by the main thread, by a second thread while the main one waits, or by a forked child
        # (whose death by SIGSYS is not the program's); each shape also runs under a control filter that allows the marker syscall
        shape = i % 3
        if shape == 0:
            text, kinds = "task 0 -\ns %d a\n" % nid[0], {0: "main"}
        elif shape == 1:
            text, kinds = "task 0 -\nthread 1 -\nwait 0 -\ntask 1 -\ns %d a\n" % nid[0], {0: "main", 1: "thread"}
        else:
            text, kinds = "task 0 -\ns %d a\nthread 1 -\nwait 0 -\ntask 1 -\n" % nid[0], {0: "main", 1: "thread"}
        fk.append(add_run(text, {nid[0]: ("a", False, 0)}, kinds, filter_kill=True))
        nid[0] += 1
        fk.append(add_run(text.replace("s %d a" % (nid[0] - 1), "s %d a" % nid[0]), {nid[0]: ("a", False, 0)}, kinds, filter_kill="control"))
    batches.append({"id": nbatch + 1, "parallel": 1, "runs": fk})
    # calls with two pathnames: the decision for the call is the strictest of the two
    tp = []
    for rep_ in range(1 if c.quick() else 4):
        for opn in ("ren", "lnk", "rn0"):
            for d1 in "abk":
                for d2 in "abk":
                    nid[0] += 1
                    a = nid[0]
                    nid[0] += 1
                    shape = (len(tp) + rep_) % 2
                    if shape == 0:
                        text, kinds, task = "task 0 -\n%s %d %s%s\ns %d a\n" % (opn, a, d1, d2, nid[0]), {0: "main"}, 0
                    else:
                        text, kinds, task = "task 0 -\nfork 1 -\nwait 0 -\ns %d a\ntask 1 -\n%s %d %s%s\n" % (nid[0], opn, a, d1, d2), {0: "main", 1: "fork"}, 1
                    run_ = add_run(text, {nid[0]: ("a", False, 0)}, kinds, twopath=(a, opn, d1, d2, task))
                    os.mkdir("%s/m_%d_1_%s" % (run_["dir"], a, d1)) if opn != "lnk" else open("%s/m_%d_1_%s" % (run_["dir"], a, d1), "w").close()
                    tp.append(run_)
    batches.append({"id": nbatch + 2, "parallel": 4, "runs": tp})
    obs = c.run_harness(exe, batches, timeout=1500)
    items, item_src = [], []
    gi = 0
    for b, o in zip(batches, obs):
        for rc, ro in zip(b["runs"], o["runs"]):
            text, ids, kinds, kw = meta[gi]
            gi += 1
            rep = {"script": text.splitlines(), "status": ro["status"], "error": ro["error"], "program_record": ro["out"].splitlines(),
                   "markers": ro["markers"], "consulted": ro["asked"]}
            cz = lambda what, **k2: dict({"kind": "enforce", "what": what}, **k2)
            lines = ro["out"].splitlines()
            pgid = int(lines[0].split()[1]) if lines and lines[0].startswith("p ") else None
            rets = {}
            for ln in lines[1:]:
                w = ln.split()
                rets[int(w[1])] = (int(w[2]), int(w[3]))
            asked = {}
            for a in ro["asked"] or []:
                cl, nm = a.split()
                asked[int(nm.split("_")[1])] = cl
            killed = any(ids[i][0] == "k" for i in asked if i in ids)
            if kw.get("twopath"):
                a, opn, d1, d2, task = kw["twopath"]
                eff = max(d1, d2, key="abk".index)
                c.count(text, nontrivial=True, klass="run:two-paths:%s%s" % (d1, d2))
                ids = dict(ids)
                src, dst = "m_%d_1_%s" % (a, d1), "m_%d_2_%s" % (a, d2)
                seen = sorted(x.split()[1] for x in (ro["asked"] or []) if x.split()[1] in (src, dst))
                rep2 = dict(rep, call=opn, decisions=[d1, d2])
                if eff != "a" and dst in ro["markers"]:
                    c.finding_or_violation(cz("a %s call with two pathnames took effect" % {"b": "banned", "k": "killed"}[eff], call=opn, decisions=d1 + d2), rep2, klass="two-paths-effect")
                got = rets.pop(a, None)
                if eff == "k":
                    killed = True
                    if got is not None:
                        c.finding_or_violation(cz("a call with two pathnames of which one is to be killed returned to the program", call=opn, decisions=d1 + d2, ret=got[0], errno=got[1]),
                                               rep2, klass="two-paths-kill")
                    if ro["status"] != 5:
                        c.finding_or_violation(cz("a kill verdict for one of the two pathnames of a call does not end the run as Disallowed Syscall", call=opn, decisions=d1 + d2,
                                                  status=ro["status"]), rep2, klass="two-paths-kill-status")
                elif eff == "b":
                    if got != (-1, 13):
                        c.finding_or_violation(cz("a call with a banned pathname does not return the configured error", call=opn, decisions=d1 + d2, got=got), rep2, klass="two-paths-ban")
                else:
                    if got != (0, 0) or dst not in ro["markers"] or seen != sorted([src, dst]):
                        c.finding_or_violation(cz("an allowed call with two pathnames did not execute after both were presented", call=opn, got=got, presented=seen), rep2, klass="two-paths-allow")
                asked = {i: cl for i, cl in asked.items() if i != a}
                if eff == "k":
                    ids = {}
            if kw.get("filter_kill") == "control":
                c.count(text, nontrivial=True, klass="run:filter-control")
                if ro["status"] != 1 or not any(m.startswith("m_") for m in ro["markers"]):
                    raise RuntimeError("control run under the killing filter with the marker syscall allowed did not run through: %s" % json.dumps(ro)[:300])
                continue
            if kw.get("filter_kill"):
                c.count(text, nontrivial=True, klass="run:filter-kill")
                if ro["status"] != 5:
                    c.finding_or_violation(cz("a syscall killed by the filter does not end the run as Disallowed Syscall", status=ro["status"]), rep, klass="filter-kill")
                if any(m.startswith("m_") for m in ro["markers"]):
                    c.finding_or_violation(cz("a syscall killed by the filter took effect"), rep, klass="filter-kill-effect")
                continue
            c.count(text, nontrivial=len(kinds) >= 2 and any(d in ("b", "k") for d, _, _ in ids.values()),
                    klass="run:%s" % ("kill" if killed else "complete"))
            for k in kinds.values():
                c.dist["task." + k] = c.dist.get("task." + k, 0) + 1
            for m in ro["markers"]:
                i = int(m.split("_")[1])
                if i not in ids:
                    continue
                d, pre, _ = ids[i]
                if d != "a" and not pre:
                    c.finding_or_violation(cz("a %s syscall took effect" % {"b": "banned", "k": "killed"}[d], decision=d), dict(rep, marker=m), klass="effect:" + d)
            for i, (ret, en) in rets.items():
                if i not in ids:
                    continue
                d, pre, task = ids[i]
                if i not in asked:
                    c.finding_or_violation(cz("a traced syscall returned to the program without the handler having been consulted", ret=ret, errno=en,
                                              task=kinds[task]), dict(rep, syscall_id=i), klass="unconsulted:" + kinds[task])
                    continue
                if d == "k":
                    c.finding_or_violation(cz("a killed syscall returned to the program", ret=ret), dict(rep, syscall_id=i), klass="kill-returned")
                elif d == "b" and (ret, en) != (-1, kw.get("ban_ret", 13)):
                    c.finding_or_violation(cz("a banned syscall does not return the configured error", ret=ret, errno=en), dict(rep, syscall_id=i), klass="banret")
                elif d == "a":
                    want = (-1, 17) if pre else (0, 0)
                    if (ret, en) != want or "m_%d_a" % i not in ro["markers"]:
                        c.finding_or_violation(cz("an allowed syscall did not execute with its real result", ret=ret, errno=en, expected=list(want)),
                                               dict(rep, syscall_id=i), klass="allow")
            if any(cl != "write" for cl in asked.values()):
                c.finding_or_violation(cz("wrong class"), rep, klass="class")
            if killed:
                if ro["status"] != 5:
                    c.finding_or_violation(cz("a kill verdict does not end the run as Disallowed Syscall", status=ro["status"]), rep, klass="kill-status")
            else:
                if ro["status"] != 1:
                    c.finding_or_violation(cz("run without a kill verdict does not end Normal", status=ro["status"], error=ro["error"][:60]), rep, klass="status")
                missing = [i for i in ids if i not in rets]
                if missing:
                    c.finding_or_violation(cz("a task did not run to the end although nothing was killed", missing=len(missing)), dict(rep, missing=missing), klass="incomplete")
            tr = o["traces"].get(str(pgid)) if pgid else None
            if tr is None:
                c.finding_or_violation(cz("no tracer log for the run"), rep, klass="nolog")
                continue
            steps = parse_trace(tr)
            items.append("(%d%%Z, %s, %d%%N)" % (pgid, coq_list(["(%d%%Z, %d%%N, %s, %s, %s)" % (p, ws, "None" if a is None else "Some %d%%nat" % a, "true" if sk else "false",
                                                                                           coq_list(rq)) for p, ws, a, sk, rq in steps]), ro["status"]))
            item_src.append((text, tr, ro["status"]))
            c.cov["tracer_log_events"] = c.cov.get("tracer_log_events", 0) + len(tr)
    # ---- a later run whose main process gets the number of an earlier run's descendant (private pid namespace, small pid_max)
    pr = scratch + "/pidreuse"
    os.makedirs(pr + "/d")
    open(pr + "/a", "w").write("task 0 -\nfork 1 -\ns 900001 a\npause 50 -\nexit 0 -\ntask 1 -\npause 30000 -\n")
    open(pr + "/b", "w").write("task 0 -\ns 900002 a\ns 900003 b\nfork 1 -\nwait 0 -\ntask 1 -\ns 900004 b\n")
    po = c.run_harness("/usr/bin/unshare", [{"id": 0, "mode": "pidreuse", "dir": pr + "/d", "script_a": pr + "/a", "script_b": pr + "/b",
                                             "out_a": pr + "/oa", "out_b": pr + "/ob"}], args=("--pid", "--fork", "--mount-proc", exe), timeout=300)[0]
    if "harness_err" in po:
        raise RuntimeError(po["harness_err"])
    c.cov["pid_reuse_exercised"] = bool(po.get("reused"))
    if po.get("reused"):
        c.count("pidreuse", nontrivial=True, klass="run:pid-reuse")
        steps = parse_trace(po["log_b"])
        first = steps[0] if steps else None
        if po["status_b"] != 1 or "r 900003 -1 13" not in po["out_b"]:
            c.finding_or_violation({"kind": "enforce", "what": "a run whose main process got the number of an earlier run's descendant does not run as it does otherwise",
                                    "status": po["status_b"]}, {"tracer_log": po["log_b"], "program_record": po["out_b"], "reused_pid": po["reused"]}, klass="pid-reuse-run")
        if not first or "LSet" not in first[4]:
            c.finding_or_violation({"kind": "enforce", "what": "the main process of a run is not given the ptrace options when its number was used by a descendant of an earlier run"},
                                   {"tracer_log": po["log_b"], "reused_pid": po["reused"]}, klass="pid-reuse")
        items.append("(%d%%Z, %s, %d%%N)" % (po["reused"], coq_list(["(%d%%Z, %d%%N, %s, %s, %s)" % (p, ws, "None" if a is None else "Some %d%%nat" % a, "true" if sk else "false",
                                                                                               coq_list(rq)) for p, ws, a, sk, rq in steps]), po["status_b"]))
        item_src.append(("run B of the pid-reuse scenario", po["log_b"], po["status_b"]))
    c.sample({"script": meta[0][0].splitlines(), "record": obs[0]["runs"][0]["out"].splitlines(), "markers": obs[0]["runs"][0]["markers"],
              "status": obs[0]["runs"][0]["status"], "tracer_log": (item_src[0][1] if item_src else [])[:30]})
    dis = []
    shard = 400
    for s0 in range(0, len(items), shard):
        body = HDR + "Definition cs : list (Z * list lstep * N) := %s.\nDefinition M := Eval vm_compute in failing log_ok cs.\nPrint M.\n" % coq_list(items[s0:s0 + shard])
        for i in c.parse_nums(c.parse_printed(c.coq_eval("logs%d" % s0, body, timeout=1200), "M").replace("%N", "")):
            text, tr, st = item_src[s0 + i]
            dis.append({"relation": "log_ok (the tracer's waits, requests and verdict are those of handle)", "script": text.splitlines(), "tracer_log": tr, "status": st})
    c.cov["runs"] = n
    c.cov["traces_validated_against_impl"] = len(items)
    c.cov["correspondence_disagreements"] = len(dis)
    if dis:
        c.cov["disagreement_samples"] = dis[:3]
        if not c.violations:
            c.violation({"kind": "correspondence-broken", "theorems_no_longer_about_the_code": c.theorems, "disagreements": dis[:5]}, no_input=True)

"""C01 — compiled seccomp filter implements the declared policy exactly.
Tie: the real Builder.Build on generated policies; in Coq (a) the Gallina port `build` must produce the
bit-identical filter, (b) the verified validator check_filter accepts the real filter for the declared
policy (by C01_filter_sound a proof over the whole input space of that filter).  runprog's shipped
policies (GetConf x program types x allowProc x showDetails) are validated against the declared lists
with trace precedence.  Oracle: an independent Python cBPF interpreter over candidate (arch, nr)."""
import concurrent.futures as cf
import json

from vlib import coq_str, coq_list, coq_N

FINISH = dict(level="proof", rule=(
    "policies: every boundary size around the 255-instruction jump horizon, the full table, runprog's 16 shipped "
    "configurations, and random policies (disjoint random subsets of the library's syscall table, each default "
    "action incl. unset/unknown values); a separate malformed stream (duplicates, unknown names, overlapping "
    "lists) capped at 20%.  Non-trivial: at least one name and a successful build; distinct = distinct "
    "(allow, trace, default) triples.  Each built filter is validated in Coq over cand(C)^2 (arch, nr) pairs, "
    "which C01_filter_sound lifts to all inputs."))

HDR = "From GS Require Import Base.Str Seccomp.Check Seccomp.Asm Seccomp.Eval.\nOpen Scope N_scope.\n"
NATIVE = 0xC000003E
RET = {"allow": 0x7fff0000, "trace": 0x7ff00000, "kill": 0x80000000, "errno": 0x00050001, "enosys": 0x00050026}


def action_ret(a):
    b = a & 0xffff
    return RET["allow"] if b == 1 else RET["errno"] if b == 2 else RET["trace"] if b == 3 else RET["kill"]


def bpf_run(f, arch, nr, words=None, loaded=None):
    """independent interpreter of the exported quadruples; words: values of the other 32-bit words of seccomp_data
    (instruction pointer, arguments) by offset, 0 when absent; loaded: set that receives the offsets of such words read"""
    A, pc, steps = 0, 0, 0
    while pc < len(f) and steps <= len(f):
        steps += 1
        code, jt, jf, k = f[pc]
        if code == 0x20:
            if k == 0:
                A = nr
            elif k == 4:
                A = arch
            elif k < 64 and k % 4 == 0:
                A = (words or {}).get(k, 0)
                if loaded is not None:
                    loaded.add(k)
            else:
                return None
            pc += 1
        elif code == 0x15:
            pc += 1 + (jt if A == k else jf)
        elif code == 0x25:
            pc += 1 + (jt if A > k else jf)
        elif code == 0x35:
            pc += 1 + (jt if A >= k else jf)
        elif code == 0x45:
            pc += 1 + (jt if A & k else jf)
        elif code == 0x05:
            pc += 1 + k
        elif code == 0x06:
            return k
        else:
            return None
    return None


def spec(allow_nums, trace_nums, default_ret, arch, nr):
    if arch != NATIVE:
        return default_ret
    if nr >= 0x40000000:
        return RET["enosys"]
    if nr in allow_nums:
        return RET["allow"]
    if nr in trace_nums:
        return RET["trace"]
    return default_ret


def oracle(filt, allow_nums, trace_nums, default_ret, allnums):
    """first (arch, nr) on which the real filter differs from the policy, or None"""
    aset, tset = set(allow_nums), set(trace_nums)
    nrs = set([0, 1, 0x3fffffff, 0x40000000, 0x40000001, 0xffffffff, 0x7fffffff, 0x80000000])
    for n in allnums:
        nrs.update((n, n + 1, n | 0x40000000))
    for k in (x[3] for x in filt):
        nrs.update((k, (k + 1) & 0xffffffff))
    for arch in (NATIVE, NATIVE + 1, 0, 0x40000003, 0xC00000B7, 0xffffffff):
        for nr in sorted(nrs):
            got = bpf_run(filt, arch, nr)
            want = spec(aset, tset, default_ret, arch, nr)
            if got != want:
                return {"arch": arch, "nr": nr, "filter_returns": got, "policy_says": want}
    # a policy never speaks about instruction pointer or argument words: where the filter reads one, no value of it may
    # change the verdict (tried: every constant of the program and its neighbours, in each word the filter reads there)
    if not any(x[0] == 0x20 and x[3] not in (0, 4) for x in filt):
        return None          # the filter reads nothing but number and architecture
    ks = set()
    for x in filt:
        ks.update((x[3], (x[3] + 1) & 0xffffffff, (x[3] - 1) & 0xffffffff))
    for arch in (NATIVE, NATIVE + 1):
        for nr in sorted(nrs):
            loaded = set()
            bpf_run(filt, arch, nr, loaded=loaded)
            if not loaded:
                continue
            want = spec(aset, tset, default_ret, arch, nr)
            for off in sorted(loaded):
                for k in sorted(ks):
                    got = bpf_run(filt, arch, nr, words={off: k})
                    if got != want:
                        return {"arch": arch, "nr": nr, "word_at_offset": off, "word_value": k, "filter_returns": got, "policy_says": want}
    return None


def coq_builder(c):
    return "{| b_allow := %s; b_trace := %s; b_default := %s |}" % (
        coq_list([coq_str(x) for x in c["allow"]]), coq_list([coq_str(x) for x in c["trace"]]), coq_N(c["default"]))


def coq_filter(f):
    return "(Some %s)" % coq_list(["q %d %d %d %d" % tuple(x) for x in f]) if f is not None else "None"


def run(c):
    exe = c.build_harness("h_c01")
    tab = c.run_harness(exe, [{"id": 0, "kind": "table"}])[0]
    names, nums = tab["names"], tab["nums"]
    num_of = dict(zip(names, nums))
    assert tab["arch"] == NATIVE and tab["mask"] == 0, tab
    tbl = "Definition tbl : list (str * N) := %s.\n" % coq_list(["(%s, %s)" % (coq_str(n), coq_N(v)) for n, v in zip(names, nums)])
    N = len(names)
    r = c.rng("policies")
    cases = []

    def pol(allow, trace, default, klass):
        # two of three builds go through one long-lived Builder value, the others through a fresh one
        cases.append({"id": len(cases), "kind": "build", "allow": allow, "trace": trace, "default": default, "_klass": klass,
                      "reuse": len(cases) % 3 != 0})

    def subset(k):
        return r.sample(names, k)

    # boundary sizes around the jump horizon
    sizes = [(0, 0), (1, 0), (0, 1), (1, 1), (2, 3)]
    for na in ([124, 125, 126, 127, 128] if c.quick() else list(range(120, 136))):
        sizes.append((na, na))
    for na in ([249, 250, 251, 252, 253, 254, 255, 256, 257, 260] if c.quick() else list(range(246, 264))):
        sizes += [(na, 0), (0, na), (na, 5), (3, na)]
    sizes += [(N, 0), (0, N), (N // 2, N - N // 2), (300, 40), (340, 40), (N - 1, 1), (1, N - 1)]
    if not c.quick():
        sizes += [(a, t) for a in (200, 254, 255, 256, 300) for t in (60, 80)]
    for na, nt in sizes:
        s = subset(na + nt)
        pol(s[:na], s[na:], r.choice([4, 4, 1, 2, 3]), "boundary")
    nrand = 120 if c.quick() else 1500
    for _ in range(nrand):
        k = r.random()
        na = r.randint(0, 30) if k < 0.6 else r.randint(0, N // 2)
        nt = r.randint(0, 12) if k < 0.6 else r.randint(0, N - N // 2)
        s = subset(na + nt)
        d = r.choice([1, 2, 3, 4, 4, 4, 0, 5, 0x10001, 0x20004, 0xffff0003, 7, 0xffffffff])
        pol(s[:na], s[na:], d, "random")
    # Build must be a function of its input: the same name sequence split differently between the
    # groups, the same lists under another default, and repeats of earlier policies, in one process
    for _ in range(12 if c.quick() else 100):
        s = subset(r.randint(2, 14))
        ks = sorted(set([0, len(s), len(s) // 2, r.randint(0, len(s))]))
        d = r.choice([1, 3, 4])
        for k in ks:
            pol(s[:k], s[k:], d, "resplit")
        pol(s[:ks[1]], s[ks[1]:], r.choice([2, 4, 1]), "resplit")
        pol(s[:ks[0]], s[ks[0]:], d, "resplit")
    for x in r.sample(cases, 15):
        pol(list(x["allow"]), list(x["trace"]), x["default"], "repeat")
    nbad = len(cases) // 5
    for _ in range(nbad):
        na, nt = r.randint(1, 8), r.randint(0, 6)
        s = subset(na + nt)
        a, t = s[:na], s[na:]
        k = r.random()
        if k < 0.3:
            a = a + [r.choice(a)]
        elif k < 0.5 and t:
            t = t + [t[0]]
        elif k < 0.75:
            (a if r.random() < 0.5 else t).append(r.choice(["no_such_call", "", "READ", "open "]))
        else:
            t = t + [r.choice(a)]
        pol(a, t, r.choice([1, 3, 4]), "malformed")
    # name lookups (what the tracer does for every trapped syscall) happen between the builds: native numbers, numbers carrying the x32 bit,
    # numbers that are no syscall; the builds after them must be what they would have been
    look = sorted(set(nums))[:60] + [0x40000000 + n for n in (0, 1, 2, 59, 257, 322, 512, 520, 545)] + [9999, 0x3fffffff, 0xffffffff, 1 << 31]
    third = len(cases) // 3
    seq = [{k: v for k, v in x.items() if not k.startswith("_")} for x in cases]
    seq = seq[:third] + [{"id": -1, "kind": "names", "nums": look}] + seq[third:]
    obs = c.run_harness(exe, seq + [{"id": len(cases), "kind": "recheck"}], timeout=900)
    recheck = obs.pop()
    looked = obs.pop(third)
    name_of = {v: n for n, v in zip(names, nums)}
    for v, got in zip(look, looked["names"]):
        want = name_of.get(v, "!")
        if got != want and not (want != "!" and got in names and num_of[got] == v):
            c.finding_or_violation({"kind": "syscall-name", "what": "a number is given a name the table does not have for it", "number": v, "name": got, "table": want}, {"number": v})
            break
    c.cov["filters_held_and_read_again_after_all_builds"] = recheck["held"]
    for ch in recheck["changed"]:
        x = cases[ch["id"]]
        a_n = [num_of[n] for n in x["allow"] if n in num_of]
        t_n = [num_of[n] for n in x["trace"] if n in num_of]
        bad = oracle(ch["now"], a_n, t_n, action_ret(x["default"]), sorted(set(nums))) or {}
        c.finding_or_violation(dict({"kind": "filter-changed-after-later-builds",
                                     "what": "a filter returned by Build no longer has the content it was returned with once later Builds ran"}, **bad),
                               {"policy": {k: v for k, v in x.items() if not k.startswith("_")}, "filter_when_returned": obs[ch["id"]].get("filter"),
                                "filter_now": ch["now"], "builds_in_this_process": [{k: v for k, v in y.items() if not k.startswith("_")} for y in cases[:ch["id"] + 40]]})
        break

    # ---- oracle on the implementation's output
    allnums = sorted(set(nums))
    for x, o in zip(cases, obs):
        built = "filter" in o
        a_n = [num_of[n] for n in x["allow"] if n in num_of]
        t_n = [num_of[n] for n in x["trace"] if n in num_of]
        c.count((tuple(x["allow"]), tuple(x["trace"]), x["default"]), nontrivial=built and bool(x["allow"] or x["trace"]),
                klass=x["_klass"] + (":built" if built else ":refused"))
        if built:
            if o["len"] != len(o["filter"]):
                c.finding_or_violation({"kind": "sockfprog-len", "len": o["len"], "instructions": len(o["filter"])}, {"case": x})
            bad = oracle(o["filter"], a_n, t_n, action_ret(x["default"]), allnums)
            if bad:
                c.finding_or_violation(dict({"kind": "filter-differs-from-policy"}, **bad),
                                       {"policy": {k: v for k, v in x.items() if not k.startswith("_")}, "filter": o["filter"]})
    c.sample({"policy": {k: v for k, v in cases[4].items() if not k.startswith("_")}, "filter": obs[4].get("filter"), "err": obs[4].get("err")})

    # ---- model side, sharded
    dis = []
    order = sorted(range(len(cases)), key=lambda i: -(len(cases[i]["allow"]) + len(cases[i]["trace"])))
    nsh = 14
    shards = [[] for _ in range(nsh)]
    for j, i in enumerate(order):     # heaviest first, round robin
        shards[j % nsh].append(i)

    def shard(k):
        idx = shards[k]
        body = HDR + tbl + "Definition cs := %s.\nDefinition M := Eval vm_compute in failing_cases tbl cs.\nPrint M.\n" % coq_list(
            ["(%s, %s)" % (coq_builder(cases[i]), coq_filter(obs[i].get("filter"))) for i in idx])
        out = c.coq_eval("build%d" % k, body, timeout=1500)
        nums_ = c.parse_nums(c.parse_printed(out, "M").replace("%N", ""))
        return [(idx[a], b) for a, b in zip(nums_[0::2], nums_[1::2])]
    with cf.ThreadPoolExecutor(max_workers=nsh) as ex:
        for res in ex.map(shard, range(nsh)):
            for i, code in res:
                why = {1: "model builds, code refuses", 2: "code builds, model refuses", 3: "filters differ (build vs Builder.Build)",
                       4: "check_filter rejects the real filter for the declared policy"}[code]
                dis.append({"relation": why, "policy": {k: v for k, v in cases[i].items() if not k.startswith("_")},
                            "observed": obs[i]})
    c.log("policies: %d, disagreements: %d" % (len(cases), len(dis)))

    # ---- runprog's shipped policies
    types = c.run_harness(exe, [{"id": 0, "kind": "types"}])[0]["types"]
    gc = []
    for pt in types:
        for ap in (False, True):
            for det in (False, True):
                gc.append({"id": len(gc), "kind": "getconf", "ptype": pt, "allowproc": ap, "details": det})
    go = c.run_harness(exe, gc)
    items = []
    for x, o in zip(gc, go):
        if "filter" not in o:
            c.finding_or_violation({"kind": "runprog-policy-does-not-build", "ptype": x["ptype"]}, {"case": x, "observed": o})
            continue
        ta = set(o["raw_trace"])
        decl_allow = [n for n in dict.fromkeys(o["raw_allow"]) if n not in ta]
        decl_trace = list(dict.fromkeys(o["raw_trace"]))
        c.count(("getconf", x["ptype"], x["allowproc"], x["details"]), klass="runprog")
        bad = oracle(o["filter"], [num_of[n] for n in decl_allow], [num_of[n] for n in decl_trace], action_ret(o["default"]), allnums)
        if bad:
            c.finding_or_violation(dict({"kind": "runprog-filter-differs-from-declared-policy", "ptype": x["ptype"],
                                         "allowproc": x["allowproc"]}, **bad), {"case": x})
        items.append("(%s, %s, %s, %s, (%s, %s))" % (
            coq_list([coq_str(n) for n in o["raw_allow"]]), coq_list([coq_str(n) for n in o["raw_trace"]]), coq_N(o["default"]),
            coq_list(["q %d %d %d %d" % tuple(q) for q in o["filter"]]),
            coq_list([coq_str(n) for n in o["allow"]]), coq_list([coq_str(n) for n in o["trace"]])))
    body = HDR + tbl + """Definition gs := %s.
Definition gc_ok (x : list str * list str * N * list insn * (list str * list str)) : N :=
  let '(ra, rt, d, f, (oa, ot)) := x in
  if negb (clean_trace_ok (ra, rt, (oa, ot))) then 1
  else let '(a', t') := clean_trace ra rt in
       match policy_of tbl {| b_allow := a'; b_trace := t'; b_default := d |} with
       | Some pol => if check_filter f pol then 0 else 2
       | None => 3
       end.
Definition M := Eval vm_compute in map gc_ok gs.
Print M.
""" % coq_list(items)
    codes = c.parse_nums(c.parse_printed(c.coq_eval("getconf", body, timeout=1500), "M").replace("%N", ""))
    for x, o, code in zip(gc, go, codes):
        if code:
            dis.append({"relation": {1: "clean_trace_ok (cleanTrace vs clean_trace)", 2: "check_filter rejects runprog's filter for the declared lists",
                                     3: "declared lists do not resolve"}[code], "case": x,
                        "allow": o["allow"], "trace": o["trace"]})
    c.sample({"runprog": gc[3], "allow_names": len(go[3]["allow"]), "trace_names": len(go[3]["trace"]), "instructions": len(go[3].get("filter", []))})
    c.cov["policies"] = len(cases)
    c.cov["runprog_configurations"] = len(gc)
    c.cov["table_size"] = N
    c.cov["largest_filter"] = max(len(o.get("filter", [])) for o in obs)
    c.cov["correspondence_disagreements"] = len(dis)
    if dis:
        c.cov["disagreement_samples"] = dis[:3]
        if not c.violations:
            c.violation({"kind": "correspondence-broken", "theorems_no_longer_about_the_code": c.theorems,
                         "disagreements": dis[:10]}, no_input=True)

"""C19 — control socket: messages, descriptors, credentials intact or not at all.
Tie: Go's control-message encoders + the library's parser vs Socket/Oob.v; histories of sends/receives on a real
socket pair (payload sizes 0..beyond the buffer, 0..253 descriptors, credentials, refused sends) vs the raw-layer
model; typed histories through the gob-framed protocol socket (first use of each type, oversize, refused sends)
vs the framed model.  Oracle: whole-or-error, identities in order, close-on-exec, descriptor count unchanged."""
import os

from vlib import coq_list, coq_bool, coq_N

FINISH = dict(level="proof", rule=(
    "oob: random descriptor lists (0..253 numbers up to 2^31) with/without credentials; raw: random histories of 2..14 "
    "sends/receives with payload sizes {0,1,10,4095,4096,4097,20000,65536}, receive buffers {1,10,4096,32768,70000}, "
    "descriptor counts {0,1,2,3,16,253}, refused sends; framed: random histories of 3..12 typed messages of sizes "
    "{5,100,20000,30000,33000,40000} with descriptors and refused sends.  Non-trivial: a history with at least one rejected "
    "message; distinct = distinct history bodies."))

HDR = "From GS Require Import Socket.Oob Socket.Frame Socket.EvalSock.\nOpen Scope N_scope.\n"


def run(c):
    exe = c.build_harness("h_c19")
    scratch = c.tmpdir("scratch")
    env = dict(os.environ, VERIF_SCRATCH=scratch)
    dis = []
    nums = lambda out: c.parse_nums(c.parse_printed(out, "M").replace("%N", ""))
    r = c.rng("oob")
    # ---------------------------------------------------------------- control data
    oc = []
    for i in range(150 if c.quick() else 1500):
        k = r.choice([0, 0, 1, 2, 3, 7, 16, 100, 253])
        fds = [r.choice([0, 1, 2, 3, 255, 256, 65535, 2 ** 31 - 1, r.randrange(0, 2 ** 31)]) for _ in range(k)]
        cred = None if r.random() < 0.5 else {"pid": r.choice([0, 1, 2 ** 31 - 1, r.randrange(1, 2 ** 22)]), "uid": r.choice([0, 1000, 65534, 2 ** 32 - 1]),
                                              "gid": r.choice([0, 1000, 2 ** 32 - 2])}
        oc.append({"id": i, "kind": "oob", "fds": fds, "cred": cred})
    oo = c.run_harness(exe, oc, env=env)
    ccred = lambda m: "None" if m is None else "(Some (mkc %s %s %s))" % tuple(coq_N(v) for v in m)
    items = []
    for x, o in zip(oc, oo):
        cr = None if x["cred"] is None else (x["cred"]["pid"], x["cred"]["uid"], x["cred"]["gid"])
        pc = None if "cred" not in o else tuple(v & 0xffffffff for v in o["cred"])
        items.append("(%s, %s, %s, (%s, %s))" % (coq_list([coq_N(f) for f in x["fds"]]), ccred(cr), coq_list([coq_N(b) for b in o["oob"]]),
                                                coq_list([coq_N(f & 0xffffffff) for f in (o["fds"] or [])]), ccred(pc)))
        c.count(("oob", tuple(x["fds"]), cr), nontrivial=bool(x["fds"]) or cr is not None, klass="oob")
        if o["err"] or (o["fds"] or []) != x["fds"] or pc != cr:
            c.finding_or_violation({"kind": "control-data-round-trip", "fds": len(x["fds"]), "cred": cr is not None}, {"case": x, "observed": o})
    body = HDR + "Definition cs := %s.\nDefinition M := Eval vm_compute in failing oob_ok cs.\nPrint M.\n" % coq_list(items)
    for i in nums(c.coq_eval("oob", body, timeout=900)):
        dis.append({"relation": "oob_ok (UnixRights/UnixCredentials + parseMsg vs encode_oob/decode_oob)", "case": oc[i]})
    c.sample({"kind": "oob", "case": oc[3], "oob_bytes": oo[3]["oob"][:40]})

    # ---------------------------------------------------------------- raw histories
    r = c.rng("raw")
    rc = []
    for i in range(120 if c.quick() else 1200):
        ops, queued, sizes = [], 0, []
        for _ in range(r.randint(2, 14)):
            n = r.choice([0, 1, 10, 4095, 4096, 4097, 20000, 65536])
            # the harness sends and receives in one thread: what is queued must fit the socket buffer, or the send would block for ever
            fits = sum(sizes) + n + 2048 * (len(sizes) + 1) <= 100000
            if queued == 0 or (fits and r.random() < 0.5):
                k = r.choice([0, 0, 1, 2, 3, 16] + ([253] if r.random() < 0.1 else []))
                bad = r.random() < 0.08
                ops.append({"op": "send", "n": n, "fds": k, "salt": len(ops), "cred": r.random() < 0.3, "bad_fd": bad,
                            "bad_val": r.choice([987654, -1, -1, -7]), "bad_pos": r.choice(["end", "start", "middle"])})
                if not bad:
                    queued += 1
                    sizes.append(n)
            else:
                ops.append({"op": "recv", "buf": r.choice([1, 10, 4096, 32768, 70000]), "salt": None})
                queued -= 1
                sizes.pop(0)
        while queued > 0:
            ops.append({"op": "recv", "buf": r.choice([10, 4096, 70000]), "salt": None})
            queued -= 1
        # receives get the salt of the message they will receive
        q = []
        for j, op in enumerate(ops):
            if op["op"] == "send" and not op["bad_fd"]:
                q.append(op["salt"])
            elif op["op"] == "recv":
                op["salt"] = q.pop(0)
        case = {"id": i, "kind": "raw", "ops": ops}
        if i % 6 == 5:
            # the receiver asks for credentials only when it is about to receive: messages sent before that carry the ones the sender specified
            case["late_passcred"] = True
            for op in ops:
                if op["op"] == "send":
                    op["cred"] = True
        rc.append(case)
    ro = c.run_harness(exe, rc, env=env, timeout=900)
    items = []
    for x, o in zip(rc, ro):
        if "harness_err" in o:
            raise RuntimeError(o["harness_err"])
        idmap = {}
        sent, mops, mobs = [], [], []
        rejected = False
        for op, ob in zip(x["ops"], o["obs"]):
            if op["op"] == "send":
                ids = [tuple(v) for v in (ob["ids"] or [])]
                for v in ids:
                    idmap.setdefault(v, len(idmap) + 1)
                fl = [idmap[v] for v in ids]
                mops.append("OSend %d %s %s %s" % (op["n"], coq_list([str(f) + "%nat" for f in fl]), coq_bool(op["cred"]), coq_bool(op["bad_fd"])))
                mobs.append("BErr" if ob["err"] else "BOk %d %s %s" % (op["n"], coq_list([str(f) + "%nat" for f in fl]), coq_bool(op["cred"])))
                if not op["bad_fd"]:
                    sent.append((op, fl))
                if op["bad_fd"] != bool(ob["err"]):
                    c.finding_or_violation({"kind": "send-outcome", "refusable": op["bad_fd"], "err": ob["err"]}, {"history": x["ops"]})
            else:
                sop, sfl = sent.pop(0)
                got = [idmap.get(tuple(v), 0) for v in ob["ids"]]
                mops.append("ORecv %d" % op["buf"])
                mobs.append("BErr" if ob["err"] else "BOk %d %s %s" % (ob["n"], coq_list([str(f) + "%nat" for f in got]), coq_bool("cred" in ob)))
                canon = lambda what, **kw: dict({"kind": "raw-socket", "what": what, "payload": sop["n"], "fds": sop["fds"], "buf": op["buf"]}, **kw)
                if ob["err"]:
                    rejected = True
                    if sop["n"] <= op["buf"] and not (sop["n"] == 0 and sop["fds"] == 0 and not sop["cred"]):
                        c.finding_or_violation(canon("a fitting message was rejected: " + ob["err"], empty_payload=sop["n"] == 0),
                                               {"history": x["ops"]})
                    elif sop["n"] == 0:
                        c.finding_or_violation(canon("empty message reported as an error", empty_payload=True, with_attachments=False), {"history": x["ops"]})
                else:
                    if ob["n"] != sop["n"] or not ob["payload_ok"]:
                        c.finding_or_violation(canon("payload not delivered whole", received=ob["n"], empty_payload=sop["n"] == 0,
                                                     with_attachments=sop["fds"] > 0 or sop["cred"]), {"history": x["ops"]})
                    if got != sfl:
                        c.finding_or_violation(canon("descriptors differ (identity / order / count)"), {"history": x["ops"], "sent": sfl, "received": got})
                    if not ob["cloexec"]:
                        c.finding_or_violation(canon("received descriptor is not close-on-exec"), {"history": x["ops"]})
                    if sop["cred"] and ob.get("cred") != [o["pid"], o["uid"], o["gid"]]:
                        c.finding_or_violation(canon("credentials differ"), {"history": x["ops"], "received": ob.get("cred")})
        if o["fd_delta"] != 0:
            c.finding_or_violation({"kind": "raw-socket", "what": "descriptors leaked in the process", "delta": o["fd_delta"]}, {"history": x["ops"]})
        c.count(("raw", str(x["ops"])), nontrivial=rejected, klass="raw:" + ("rejecting" if rejected else "clean"))
        items.append("(%s, %s)" % (coq_list(mops), coq_list(mobs)))
    body = HDR + "Definition cs := %s.\nDefinition M := Eval vm_compute in failing raw_ok cs.\nPrint M.\n" % coq_list(items)
    for i in nums(c.coq_eval("raw", body, timeout=900)):
        dis.append({"relation": "raw_ok (SendMsg/RecvMsg history vs raw_run)", "history": rc[i]["ops"], "observed": ro[i]["obs"]})
    c.sample({"kind": "raw", "history": rc[0]["ops"], "observed": ro[0]["obs"]})

    # ---------------------------------------------------------------- framed histories
    r = c.rng("framed")
    fc = []
    for i in range(80 if c.quick() else 800):
        msgs = []
        for _ in range(r.randint(3, 12)):
            msgs.append({"type": r.choice("ABC"), "size": r.choice([5, 100, 100, 20000, 30000, 33000, 40000]), "fds": r.choice([0, 0, 1, 3]),
                         "bad_fd": r.random() < 0.07})
        fc.append({"id": i, "kind": "framed", "msgs": msgs})
    fo = c.run_harness(exe, fc, env=env, timeout=900)
    items = []
    tnum = {"A": 1, "B": 2, "C": 3}
    for x, o in zip(fc, fo):
        if "harness_err" in o:
            raise RuntimeError(o["harness_err"])
        mm, obs_ok = [], []
        poisoned_types = set()
        described = set()
        anyrej = False
        for j, (m, ob) in enumerate(zip(x["msgs"], o["obs"])):
            lost = ob["send_err"] is not None
            mm.append("(%d%%nat, %d%%nat, %s)" % (tnum[m["type"]], j, coq_bool(lost)))
            canon = lambda what, **kw: dict({"kind": "framed-socket", "what": what, "type": m["type"], "size": m["size"]}, **kw)
            if lost:
                anyrej = True
                if not m["bad_fd"] and m["size"] <= 30000:
                    c.finding_or_violation(canon("a fitting message was rejected by the sender: " + ob["send_err"]), {"history": x["msgs"]})
                if m["type"] not in described:
                    poisoned_types.add(m["type"])
                described.add(m["type"])
                continue
            if m["size"] >= 33000:
                c.finding_or_violation(canon("an oversize message was put on the wire"), {"history": x["msgs"]})
            described.add(m["type"])
            if ob.get("recv_hang"):
                c.finding_or_violation(canon("a message the sender accepted is never delivered: the receiver waits for ever", index=j), {"history": x["msgs"], "observed": o["obs"]},
                                       klass="framed-lost")
                break
            good = ob["recv_err"] is None
            obs_ok.append(coq_bool(good))
            if good and not (ob["seq"] == j and ob["payload_ok"] and ob["fds_ok"]):
                c.finding_or_violation(canon("message not delivered whole / in order", seq=ob["seq"], index=j), {"history": x["msgs"], "observed": o["obs"]})
            if not good:
                c.finding_or_violation(canon("a sent message was not received: " + ob["recv_err"][:60],
                                             after_rejected_first_use_of_type=m["type"] in poisoned_types),
                                       {"history": x["msgs"], "observed": o["obs"]})
        if o["fd_delta"] != 0:
            c.finding_or_violation({"kind": "framed-socket", "what": "descriptors leaked", "delta": o["fd_delta"]}, {"history": x["msgs"]})
        if o.get("abandoned"):
            c.count(("framed", str(x["msgs"])), nontrivial=True, klass="framed:abandoned")
            continue
        c.count(("framed", str(x["msgs"])), nontrivial=anyrej, klass="framed:" + ("rejecting" if anyrej else "clean"))
        items.append("(%s, %s)" % (coq_list(mm), coq_list(obs_ok)))
    # ---- both directions of one framed connection at once (the host's and the container's send and receive loops run concurrently)
    du = c.run_harness(exe, [{"id": 0, "kind": "duplex", "n": 400 if c.quick() else 4000, "size": 24000}], env=env, timeout=300)[0]
    if "harness_err" in du:
        raise RuntimeError(du["harness_err"])
    c.count("framed-duplex", nontrivial=True, klass="framed:duplex")
    if du["fail"]:
        c.finding_or_violation({"kind": "framed-socket", "what": "messages are lost or changed when both directions of a connection are in use at once", "first": du["fail"][:80]},
                               {"exchange": "400 messages of 24000 bytes in each direction, one sender and one receiver per endpoint", "observed": du}, klass="framed-duplex")
    body = HDR + "Definition cs := %s.\nDefinition M := Eval vm_compute in failing framed_ok cs.\nPrint M.\n" % coq_list(items)
    for i in nums(c.coq_eval("framed", body, timeout=900)):
        dis.append({"relation": "framed_ok (gob-framed history vs run_lost)", "history": fc[i]["msgs"], "observed": fo[i]["obs"]})
    c.sample({"kind": "framed", "history": fc[0]["msgs"], "observed": fo[0]["obs"]})
    c.cov["correspondence_disagreements"] = len(dis)
    if dis:
        c.cov["disagreement_samples"] = dis[:5]
        if not c.violations:
            c.violation({"kind": "correspondence-broken", "theorems_no_longer_about_the_code": c.theorems, "disagreements": dis[:10]}, no_input=True)

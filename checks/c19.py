"""C19 — control socket: messages, descriptors, credentials intact or not at all.
Tie: Go's control-message encoders + the library's parser vs Socket/Oob.v; histories of sends/receives on a real
socket pair (payload sizes 0..beyond the buffer, 0..253 descriptors, credentials, refused sends) vs the raw-layer
model; typed histories through the gob-framed protocol socket (first use of each type, oversize, refused sends)
vs the framed model.  Oracle: whole-or-error, identities in order, close-on-exec, descriptor count unchanged.
State of the receiver: histories (raw and framed) in which the receiving process has room for only r more descriptors
(RLIMIT_NOFILE, r around the number attached) at the moment of a receive: a message arrives with every attached
descriptor or is rejected, nothing leaks, and the messages that follow arrive whole and in order."""
import os

from vlib import coq_list, coq_bool, coq_N

FINISH = dict(level="proof", rule=(
    "oob: random descriptor lists (0..253 numbers up to 2^31) with/without credentials; raw: random histories of 2..14 "
    "sends/receives with payload sizes {0,1,10,4095,4096,4097,20000,65536}, receive buffers {1,10,4096,32768,70000}, "
    "descriptor counts {0,1,2,3,16,253}, refused sends; framed: random histories of 3..12 typed messages of sizes "
    "{5,100,20000,30000,33000,40000} with descriptors and refused sends; receiver short of room: further raw and framed "
    "histories in which the receiver's descriptor table has room for r in {0,1,2,3,k/2,k-1,k,k+1} descriptors when a message with k "
    "descriptors is received (free slots low / high / spread).  Non-trivial: a history with at least one rejected "
    "message; distinct = distinct history bodies."))

HDR = "From GS Require Import Socket.Oob Socket.Frame Socket.EvalSock.\nOpen Scope N_scope.\n"


def run(c):
    exe = c.build_harness("h_c19")
    scratch = c.tmpdir("scratch")
    env = dict(os.environ, VERIF_SCRATCH=scratch)
    dis = []
    nums = lambda out: c.parse_nums(c.parse_printed(out, "M").replace("%N", ""))

    def failing(name, ok, items, chunk):
        """indices of the items the Coq comparison `ok` rejects; evaluated `chunk` items at a time (one file with thousands of
        histories does not fit the time and memory of one coqc run)"""
        bad = []
        for off in range(0, len(items), chunk):
            body = HDR + "Definition cs := %s.\nDefinition M := Eval vm_compute in failing %s cs.\nPrint M.\n" % (coq_list(items[off:off + chunk]), ok)
            bad += [off + i for i in nums(c.coq_eval(name if off == 0 else "%s_%d" % (name, off // chunk), body, timeout=900))]
        return bad
    r = c.rng("oob")
    # ---------------------------------------------------------------- control data
    oc = []
    for i in range(150 if c.quick() else 1500):
        k = r.choice([0, 0, 1, 2, 3, 7, 16, 100, 253])
        fds = [r.choice([0, 1, 2, 3, 255, 256, 65535, 2 ** 31 - 1, r.randrange(0, 2 ** 31)]) for _ in range(k)]
        cred = None if r.random() < 0.5 else {"pid": r.choice([0, 1, 2 ** 31 - 1, r.randrange(1, 2 ** 22)]), "uid": r.choice([0, 1000, 65534, 2 ** 32 - 1]),
                                              "gid": r.choice([0, 1000, 2 ** 32 - 2])}
        oc.append({"id": i, "kind": "oob", "fds": fds, "cred": cred})
    oo = c.run_harness(exe, oc, env=env)
    ccred = lambda m: "None" if m is None else "(Some (mkc %s %s %s))" % tuple(coq_N(v) for v in m)
    items = []
    for x, o in zip(oc, oo):
        cr = None if x["cred"] is None else (x["cred"]["pid"], x["cred"]["uid"], x["cred"]["gid"])
        pc = None if "cred" not in o else tuple(v & 0xffffffff for v in o["cred"])
        items.append("(%s, %s, %s, (%s, %s))" % (coq_list([coq_N(f) for f in x["fds"]]), ccred(cr), coq_list([coq_N(b) for b in o["oob"]]),
                                                coq_list([coq_N(f & 0xffffffff) for f in (o["fds"] or [])]), ccred(pc)))
        c.count(("oob", tuple(x["fds"]), cr), nontrivial=bool(x["fds"]) or cr is not None, klass="oob")
        if o["err"] or (o["fds"] or []) != x["fds"] or pc != cr:
            c.finding_or_violation({"kind": "control-data-round-trip", "fds": len(x["fds"]), "cred": cr is not None}, {"case": x, "observed": o})
    body = HDR + "Definition cs := %s.\nDefinition M := Eval vm_compute in failing oob_ok cs.\nPrint M.\n" % coq_list(items)
    for i in nums(c.coq_eval("oob", body, timeout=900)):
        dis.append({"relation": "oob_ok (UnixRights/UnixCredentials + parseMsg vs encode_oob/decode_oob)", "case": oc[i]})
    c.sample({"kind": "oob", "case": oc[3], "oob_bytes": oo[3]["oob"][:40]})

    # ---------------------------------------------------------------- raw histories
    r = c.rng("raw")
    rc = []

    def gen_raw(r, i):
        ops, queued, sizes = [], 0, []
        for _ in range(r.randint(2, 14)):
            n = r.choice([0, 1, 10, 4095, 4096, 4097, 20000, 65536])
            # the harness sends and receives in one thread: what is queued must fit the socket buffer, or the send would block for ever
            fits = sum(sizes) + n + 2048 * (len(sizes) + 1) <= 100000
            if queued == 0 or (fits and r.random() < 0.5):
                k = r.choice([0, 0, 1, 2, 3, 16] + ([253] if r.random() < 0.1 else []))
                bad = r.random() < 0.08
                ops.append({"op": "send", "n": n, "fds": k, "salt": len(ops), "cred": r.random() < 0.3, "bad_fd": bad,
                            "bad_val": r.choice([987654, -1, -1, -7]), "bad_pos": r.choice(["end", "start", "middle"])})
                if not bad:
                    queued += 1
                    sizes.append(n)
            else:
                ops.append({"op": "recv", "buf": r.choice([1, 10, 4096, 32768, 70000]), "salt": None})
                queued -= 1
                sizes.pop(0)
        while queued > 0:
            ops.append({"op": "recv", "buf": r.choice([10, 4096, 70000]), "salt": None})
            queued -= 1
        # receives get the salt of the message they will receive
        q = []
        for j, op in enumerate(ops):
            if op["op"] == "send" and not op["bad_fd"]:
                q.append(op["salt"])
            elif op["op"] == "recv":
                op["salt"] = q.pop(0)
        case = {"id": i, "kind": "raw", "ops": ops}
        if i % 6 == 5:
            # the receiver asks for credentials only when it is about to receive: messages sent before that carry the ones the sender specified
            case["late_passcred"] = True
            for op in ops:
                if op["op"] == "send":
                    op["cred"] = True
        return case

    for i in range(120 if c.quick() else 1200):
        rc.append(gen_raw(r, i))
    # ---- the receiver short of room in its descriptor table: how many of the attached descriptors the kernel can install depends
    # on the state of the receiving process (RLIMIT_NOFILE), not on any size.  Same histories, from a stream of their own; a receive
    # finds room for r descriptors, r around the number k attached to the message it is going to receive.
    r2 = c.rng("raw-room")
    for i in range(len(rc), len(rc) + (40 if c.quick() else 400)):
        case = gen_raw(r2, i)
        q = []
        some = False
        for op in case["ops"]:
            if op["op"] == "send" and not op["bad_fd"]:
                q.append(op["fds"])
            elif op["op"] == "recv":
                k = q.pop(0)
                if r2.random() < 0.5 or (k > 0 and not some):
                    op["room"] = r2.choice([0, 1, 2, 3, k // 2, max(k - 1, 0), max(k - 1, 0), k, k + 1])
                    op["room_where"] = r2.choice(["low", "high", "spread"])
                    some = some or k > 0
        case["receiver_short_of_room"] = True
        rc.append(case)
    c.log("control data compared; %d raw histories" % len(rc))
    ro = c.run_harness(exe, rc, env=env, timeout=900)
    c.log("raw histories run")
    items = []
    nshort = [0, 0]     # receives that found less room than descriptors attached: raw, framed
    for x, o in zip(rc, ro):
        if "harness_err" in o:
            raise RuntimeError(o["harness_err"])
        idmap = {}
        sent, mops, mobs = [], [], []
        rejected = False
        for op, ob in zip(x["ops"], o["obs"]):
            if op["op"] == "send":
                ids = [tuple(v) for v in (ob["ids"] or [])]
                for v in ids:
                    idmap.setdefault(v, len(idmap) + 1)
                fl = [idmap[v] for v in ids]
                mops.append("OSend %d %s %s %s" % (op["n"], coq_list([str(f) + "%nat" for f in fl]), coq_bool(op["cred"]), coq_bool(op["bad_fd"])))
                mobs.append("BErr" if ob["err"] else "BOk %d %s %s" % (op["n"], coq_list([str(f) + "%nat" for f in fl]), coq_bool(op["cred"])))
                if not op["bad_fd"]:
                    sent.append((op, fl))
                if op["bad_fd"] != bool(ob["err"]):
                    c.finding_or_violation({"kind": "send-outcome", "refusable": op["bad_fd"], "err": ob["err"]}, {"history": x["ops"]})
            else:
                sop, sfl = sent.pop(0)
                got = [idmap.get(tuple(v), 0) for v in ob["ids"]]
                # room: how many more descriptors the receiving process could take when it received (None: plenty)
                room = op.get("room")
                if room is not None and ob.get("room_seen") != room:
                    raise RuntimeError("harness: receiver was to have room for %d descriptors, it has room for %s" % (room, ob.get("room_seen")))
                short = room is not None and room < len(sfl)
                mops.append("ORecv %d" % op["buf"] if room is None else "ORecvRoom %d %d" % (op["buf"], room))
                mobs.append("BErr" if ob["err"] else "BOk %d %s %s" % (ob["n"], coq_list([str(f) + "%nat" for f in got]), coq_bool("cred" in ob)))
                canon = lambda what, **kw: dict({"kind": "raw-socket", "what": what, "payload": sop["n"], "fds": sop["fds"], "buf": op["buf"]},
                                                **dict(kw, **({} if room is None else {"receiver_room": room})))
                # what is shown with a failure in a history where the receiver is short of room
                tight = {} if room is None else {
                    "failing_op": len(mops) - 1, "message": sop, "receiver_room_for_descriptors": room, "free_slots": op.get("room_where"),
                    "expected": ("the kernel can install only %d of the %d attached descriptors: RecvMsg returns an error, leaves no descriptor behind, "
                                 "and the next messages arrive whole" % (room, len(sfl))) if short else
                                "there is room for all %d attached descriptors: the message arrives whole with exactly these" % len(sfl),
                    "observed": {"err": ob["err"], "bytes": ob["n"], "descriptors_received": ob.get("nfds"), "descriptors_attached": len(sfl)}}
                kl = None if room is None else "raw-socket-receiver-short-of-room"
                if short:
                    nshort[0] += 1
                if ob["err"] and short:
                    # rejected because the descriptors cannot all be installed: what the property asks for
                    rejected = True
                elif ob["err"]:
                    rejected = True
                    if sop["n"] <= op["buf"] and not (sop["n"] == 0 and sop["fds"] == 0 and not sop["cred"]):
                        c.finding_or_violation(canon("a fitting message was rejected: " + ob["err"], empty_payload=sop["n"] == 0),
                                               dict({"history": x["ops"]}, **tight), klass=kl)
                    elif sop["n"] == 0:
                        c.finding_or_violation(canon("empty message reported as an error", empty_payload=True, with_attachments=False), {"history": x["ops"]})
                else:
                    if ob["n"] != sop["n"] or not ob["payload_ok"]:
                        c.finding_or_violation(canon("payload not delivered whole", received=ob["n"], empty_payload=sop["n"] == 0,
                                                     with_attachments=sop["fds"] > 0 or sop["cred"]), {"history": x["ops"]})
                    if got != sfl:
                        c.finding_or_violation(canon("descriptors differ (identity / order / count)"), dict({"history": x["ops"], "sent": sfl, "received": got}, **tight),
                                               klass=kl)
                    if not ob["cloexec"]:
                        c.finding_or_violation(canon("received descriptor is not close-on-exec"), {"history": x["ops"]})
                    if sop["cred"] and ob.get("cred") != [o["pid"], o["uid"], o["gid"]]:
                        c.finding_or_violation(canon("credentials differ"), {"history": x["ops"], "received": ob.get("cred")})
        if o["fd_delta"] != 0:
            c.finding_or_violation({"kind": "raw-socket", "what": "descriptors leaked in the process", "delta": o["fd_delta"]}, {"history": x["ops"]})
        c.count(("raw", str(x["ops"])), nontrivial=rejected, klass=("raw-short-of-room:" if x.get("receiver_short_of_room") else "raw:") + ("rejecting" if rejected else "clean"))
        items.append("(%s, %s)" % (coq_list(mops), coq_list(mobs)))
    for i in failing("raw", "raw_ok", items, 300):
        dis.append({"relation": "raw_ok (SendMsg/RecvMsg history vs raw_run)", "history": rc[i]["ops"], "observed": ro[i]["obs"]})
    c.sample({"kind": "raw", "history": rc[0]["ops"], "observed": ro[0]["obs"]})

    # ---------------------------------------------------------------- framed histories
    r = c.rng("framed")
    fc = []
    for i in range(80 if c.quick() else 800):
        msgs = []
        for _ in range(r.randint(3, 12)):
            msgs.append({"type": r.choice("ABC"), "size": r.choice([5, 100, 100, 20000, 30000, 33000, 40000]), "fds": r.choice([0, 0, 1, 3]),
                         "bad_fd": r.random() < 0.07})
        fc.append({"id": i, "kind": "framed", "msgs": msgs})
    # ---- the receiver short of room in its descriptor table, through the framed layer (stream of its own)
    r2 = c.rng("framed-room")
    for i in range(len(fc), len(fc) + (40 if c.quick() else 400)):
        msgs = []
        for _ in range(r2.randint(3, 12)):
            k = r2.choice([0, 1, 2, 3, 5, 16])
            m = {"type": r2.choice("ABC"), "size": r2.choice([5, 100, 100, 20000, 30000, 30000, 33000]), "fds": k, "bad_fd": r2.random() < 0.05}
            if r2.random() < 0.5:
                m["room"] = r2.choice([0, 1, 2, k // 2, max(k - 1, 0), max(k - 1, 0), k, k + 1])
                m["room_where"] = r2.choice(["low", "high", "spread"])
            msgs.append(m)
        fc.append({"id": i, "kind": "framed", "msgs": msgs, "receiver_short_of_room": True})
    c.log("raw histories compared; %d framed histories" % len(fc))
    fo = c.run_harness(exe, fc, env=env, timeout=900)
    c.log("framed histories run")
    items = []
    tnum = {"A": 1, "B": 2, "C": 3}
    for x, o in zip(fc, fo):
        if "harness_err" in o:
            raise RuntimeError(o["harness_err"])
        mm, obs_ok = [], []
        poisoned_types = set()
        rpoisoned = {}       # types whose first value was rejected by the receiver: the decoder has not seen their description
        described = set()
        anyrej = False
        for j, (m, ob) in enumerate(zip(x["msgs"], o["obs"])):
            lost = ob["send_err"] is not None
            room = m.get("room")
            if not lost and room is not None and ob.get("room_seen") != room:
                raise RuntimeError("harness: receiver was to have room for %d descriptors, it has room for %s" % (room, ob.get("room_seen")))
            # short: the receiving process cannot take all the attached descriptors: the message is to be rejected by the receiver
            short = not lost and room is not None and room < m["fds"]
            rrej = short and not ob.get("recv_hang") and ob["recv_err"] is not None
            # a packet the receiver rejected never reaches the decoder: for the stream it is as if it had not reached the wire
            mm.append("(%d%%nat, %d%%nat, %s)" % (tnum[m["type"]], j, coq_bool(lost or rrej)))
            canon = lambda what, **kw: dict({"kind": "framed-socket", "what": what, "type": m["type"], "size": m["size"]},
                                            **dict(kw, **({} if room is None else {"receiver_room": room, "fds": m["fds"]})))
            tight = {} if room is None or lost else {
                "failing_message": j, "message": m, "receiver_room_for_descriptors": room,
                "expected": ("the kernel can install only %d of the %d attached descriptors: RecvMsg returns an error and leaves no descriptor behind"
                             % (room, m["fds"])) if short else "there is room for all %d attached descriptors: the message arrives whole with exactly these" % m["fds"],
                "observed_here": {"recv_err": ob.get("recv_err"), "descriptors_received": ob.get("nfds"), "descriptors_attached": m["fds"]}}
            kl = None if room is None else "framed-socket-receiver-short-of-room"
            if lost:
                anyrej = True
                if not m["bad_fd"] and m["size"] <= 30000:
                    c.finding_or_violation(canon("a fitting message was rejected by the sender: " + ob["send_err"]), {"history": x["msgs"]})
                if m["type"] not in described:
                    poisoned_types.add(m["type"])
                described.add(m["type"])
                continue
            if m["size"] >= 33000:
                c.finding_or_violation(canon("an oversize message was put on the wire"), {"history": x["msgs"]})
            first_use = m["type"] not in described
            described.add(m["type"])
            if short:
                nshort[1] += 1
            if rrej:
                # rejected because the descriptors cannot all be installed: what the property asks for
                anyrej = True
                if first_use:
                    rpoisoned[m["type"]] = j
                continue
            if ob.get("recv_hang"):
                c.finding_or_violation(canon("a message the sender accepted is never delivered: the receiver waits for ever", index=j), {"history": x["msgs"], "observed": o["obs"]},
                                       klass="framed-lost")
                break
            good = ob["recv_err"] is None
            obs_ok.append(coq_bool(good))
            if good and not (ob["seq"] == j and ob["payload_ok"] and ob["fds_ok"]):
                c.finding_or_violation(canon("message not delivered whole / in order", seq=ob["seq"], index=j),
                                       dict({"history": x["msgs"], "observed": o["obs"]}, **tight), klass=kl)
            if not good and m["type"] in rpoisoned and m["type"] not in poisoned_types:
                # not the message's own fault: an earlier message of this type was rejected by the receiver (no room for its descriptors)
                c.finding_or_violation({"kind": "framed-socket-after-receiver-rejection",
                                        "what": "after the receiver rejected the first message of a type (its descriptors could not all be installed), "
                                                "later messages of that type are not received: " + ob["recv_err"][:60], "type": m["type"], "size": m["size"]},
                                       {"history": x["msgs"], "failing_message": j, "message": m, "first_message_of_the_type_rejected_by_the_receiver": rpoisoned[m["type"]],
                                        "expected": "message %d fits, was accepted by the sender, and the receiver has room for its %d descriptors: it is received whole"
                                                    % (j, m["fds"]),
                                        "observed_here": {"recv_err": ob["recv_err"], "earlier_rejection": o["obs"][rpoisoned[m["type"]]].get("recv_err")},
                                        "observed": o["obs"]}, klass="framed-after-receiver-rejection", per_class=1)
            elif not good:
                c.finding_or_violation(canon("a sent message was not received: " + ob["recv_err"][:60],
                                             after_rejected_first_use_of_type=m["type"] in poisoned_types),
                                       dict({"history": x["msgs"], "observed": o["obs"]}, **tight), klass=kl)
        if o["fd_delta"] != 0:
            c.finding_or_violation({"kind": "framed-socket", "what": "descriptors leaked", "delta": o["fd_delta"]}, {"history": x["msgs"]})
        if o.get("abandoned"):
            c.count(("framed", str(x["msgs"])), nontrivial=True, klass="framed:abandoned")
            continue
        c.count(("framed", str(x["msgs"])), nontrivial=anyrej, klass=("framed-short-of-room:" if x.get("receiver_short_of_room") else "framed:") + ("rejecting" if anyrej else "clean"))
        items.append("(%s, %s)" % (coq_list(mm), coq_list(obs_ok)))
    # ---- both directions of one framed connection at once (the host's and the container's send and receive loops run concurrently)
    du = c.run_harness(exe, [{"id": 0, "kind": "duplex", "n": 400 if c.quick() else 4000, "size": 24000}], env=env, timeout=300)[0]
    if "harness_err" in du:
        raise RuntimeError(du["harness_err"])
    c.count("framed-duplex", nontrivial=True, klass="framed:duplex")
    if du["fail"]:
        c.finding_or_violation({"kind": "framed-socket", "what": "messages are lost or changed when both directions of a connection are in use at once", "first": du["fail"][:80]},
                               {"exchange": "400 messages of 24000 bytes in each direction, one sender and one receiver per endpoint", "observed": du}, klass="framed-duplex")
    body = HDR + "Definition cs := %s.\nDefinition M := Eval vm_compute in failing framed_ok cs.\nPrint M.\n" % coq_list(items)
    for i in nums(c.coq_eval("framed", body, timeout=900)):
        dis.append({"relation": "framed_ok (gob-framed history vs run_lost)", "history": fc[i]["msgs"], "observed": fo[i]["obs"]})
    c.sample({"kind": "framed", "history": fc[0]["msgs"], "observed": fo[0]["obs"]})
    c.cov["receives_short_of_room"] = {"raw": nshort[0], "framed": nshort[1]}
    c.cov["correspondence_disagreements"] = len(dis)
    if dis:
        c.cov["disagreement_samples"] = dis[:5]
        if not c.violations:
            c.violation({"kind": "correspondence-broken", "theorems_no_longer_about_the_code": c.theorems, "disagreements": dis[:10]}, no_input=True)

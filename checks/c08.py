"""C08 — configured limits in force; exhaustion yields the matching verdict.
Tie: PrepareRLimit on generated records; the program's own getrlimit report in the three runners;
pipe.NewBuffer against fast, huge and slow writers; CPU / file-size / memory exhaustion runs."""
import os

from vlib import coq_list, coq_bool, coq_Z, coq_N

FINISH = dict(level="proof", rule=(
    "prepare: random limit records over {0, 1, small, 2^31, 2^32+k, 2^63, 2^64-1}; launches: random applicable records per "
    "runner with the target reporting getrlimit of all 16 resources, plus refused records (hard limit above the inherited "
    "one without privilege); collector: caps {0,1,100,4096,65536,2^20,MaxInt64} x volumes {0,N-1,N,N+1,N+2,10N,(64 MiB)} x chunk "
    "sizes, and a writer that resumes 1.5 s after passing the cap; exhaustion: CPU burner under RLIMIT_CPU, file growth under "
    "RLIMIT_FSIZE, 64 MiB touched under an 8 MiB runner bound.  Non-trivial: a record with at least one configured resource / "
    "a volume above zero; distinct = distinct case bodies."))

HDR = "From GS Require Import Verdict.Status Verdict.Rlimit Verdict.Eval Verdict.Eval8.\nOpen Scope N_scope.\n"
FIELDS = ["cpu", "cpu_hard", "data", "fsize", "stack", "as", "nofile"]
RES = {"cpu": 0, "fsize": 1, "data": 2, "stack": 3, "nocore": 4, "nofile": 7, "as": 9}
U64 = (1 << 64) - 1


def coq_rl(r):
    return "{| rl_cpu := %s; rl_cpu_hard := %s; rl_data := %s; rl_fsize := %s; rl_stack := %s; rl_as := %s; rl_nofile := %s; rl_nocore := %s |}" % (
        tuple(coq_N(r.get(f, 0)) for f in FIELDS) + (coq_bool(r.get("nocore", False)),))


def expected_limits(r, inherited):
    exp = {int(k): tuple(v) for k, v in inherited.items()}
    for f in ("data", "fsize", "stack", "as", "nofile"):
        if r.get(f, 0) > 0:
            exp[RES[f]] = (r[f], r[f])
    if r.get("cpu", 0) > 0:
        exp[0] = (r["cpu"], max(r.get("cpu_hard", 0), r["cpu"]))
    if r.get("nocore"):
        exp[4] = (0, 0)
    return exp


def assoc(d):
    return coq_list(["(%s, (%s, %s))" % (coq_N(int(k)), coq_N(v[0]), coq_N(v[1])) for k, v in sorted(d.items(), key=lambda kv: int(kv[0]))])


def run(c):
    exe = c.build_harness("h_c08")
    c.build_probe("target")
    scratch = c.tmpdir("scratch")
    env = dict(os.environ, VERIF_SCRATCH=scratch)
    dis = []
    nums = lambda out: c.parse_nums(c.parse_printed(out, "M").replace("%N", ""))

    # ------------------------------------------------------------ PrepareRLimit
    r = c.rng("prepare")
    vals = [0, 0, 1, 2, 7, 1 << 20, 1 << 31, (1 << 32) - 1, 1 << 32, (1 << 32) + 5, 1 << 40, 1 << 63, U64]
    pc = [{"id": i, "kind": "prepare", "rlimits": dict({f: r.choice(vals) for f in FIELDS}, nocore=r.random() < 0.5)}
          for i in range(400 if c.quick() else 4000)]
    po = c.run_harness(exe, pc, env=env)
    items = ["(%s, %s)" % (coq_rl(x["rlimits"]), coq_list(["mkr %d %d %d" % tuple(e) for e in o["entries"]])) for x, o in zip(pc, po)]
    body = HDR + "Definition cs := %s.\nDefinition M := Eval vm_compute in failing prepare_ok cs.\nPrint M.\n" % coq_list(items)
    for i in nums(c.coq_eval("prepare", body)):
        dis.append({"relation": "prepare_ok (PrepareRLimit vs prepare)", "case": pc[i], "observed": po[i]})
    for x, o in zip(pc, po):
        rr = x["rlimits"]
        c.count(("prepare", tuple(sorted(rr.items()))), nontrivial=any(rr[f] for f in FIELDS) or rr["nocore"], klass="prepare")
        got = {e[0]: (e[1], e[2]) for e in o["entries"]}
        want = {k: v for k, v in expected_limits(rr, {}).items()}
        if got != want or len(got) != len(o["entries"]):
            c.finding_or_violation({"kind": "prepare", "rlimits": rr, "expected": want, "observed": o["entries"]}, {"case": x})
    c.sample({"kind": "prepare", "case": pc[0]["rlimits"], "observed": po[0]["entries"]})

    # ------------------------------------------------------------ limits in the program
    r = c.rng("launch")
    lc = []

    def rec():
        x = {}
        if r.random() < 0.6:
            x["cpu"] = r.choice([1, 2, 5, 100, 1 << 33])
            x["cpu_hard"] = r.choice([0, 1, 3, x["cpu"] + 7])
        if r.random() < 0.5:
            x["data"] = r.choice([1 << 24, 1 << 28, (1 << 32) + 4096, 1 << 40])
        if r.random() < 0.5:
            x["fsize"] = r.choice([0 + 4096, 1 << 20, (1 << 33) + 1, 1 << 50])
        if r.random() < 0.4:
            x["stack"] = r.choice([1 << 16, 1 << 20, 8 << 20, 1 << 33])
        if r.random() < 0.4:
            x["as"] = r.choice([1 << 27, 1 << 30, (1 << 36) + 12288])
        if r.random() < 0.5:
            x["nofile"] = r.choice([8, 64, 256, 1024, 20000])
        x["nocore"] = r.random() < 0.5
        return x
    n_each = 10 if c.quick() else 60
    for runner in ("ptrace", "ns", "container"):
        lc.append({"id": len(lc), "kind": "run", "runner": runner, "args": ["rlimits"], "rlimits": {}})
        for _ in range(n_each):
            lc.append({"id": len(lc), "kind": "run", "runner": runner, "args": ["rlimits"], "rlimits": rec()})
    # more entries than the record type can produce, handed to the launcher directly: every one of them must be in force
    RAW = [[8, 32768, 65536], [11, 100, 200], [12, 4096, 8192], [10, 10, 20], [6, 3000, 4000], [13, 0, 0], [14, 0, 0], [5, 1 << 30, 1 << 31]]
    for runner in ("ptrace", "ns", "container"):
        for k in (3, 6, len(RAW)):
            lc.append({"id": len(lc), "kind": "run", "runner": runner, "args": ["rlimits"], "rlimits": {"cpu": 5, "data": 1 << 28, "fsize": 1 << 20, "stack": 8 << 20, "nofile": 256, "nocore": True},
                       "raw": RAW[:k]})
    # refusals: hard limit above the inherited one, no privilege in the new user namespace
    for res, f, lo, want in ((1, "fsize", 1 << 26, 1 << 27), (7, "nofile", 512, 1024), (9, "as", 1 << 32, 1 << 33)):
        lc.append({"id": len(lc), "kind": "run", "runner": "ns", "args": ["rlimits"], "rlimits": {f: want},
                   "lower": {"res": res, "cur": lo, "max": lo}})
        lc.append({"id": len(lc), "kind": "run", "runner": "ns", "args": ["rlimits"], "rlimits": {f: lo, "cpu": 3},
                   "lower": {"res": res, "cur": lo, "max": lo}})
    lo_ = c.run_harness(exe, lc, env=env, timeout=600)
    items = []
    for x, o in zip(lc, lo_):
        if "harness_err" in o:
            raise RuntimeError(o["harness_err"])
        rr = x["rlimits"]
        priv = x["runner"] == "ptrace"
        obs = o.get("limits")
        failed_at_rlimit = o["status"] == 8 and "setrl" in o["errmsg"]
        if obs is None and not failed_at_rlimit:
            c.finding_or_violation({"kind": "launch-under-limits-failed", "runner": x["runner"], "error": o["errmsg"]}, {"case": x, "observed": o})
            continue
        if "raw" not in x:      # the model speaks about the record type; entries given directly are judged by the oracle below
            items.append("(%s, %s, %s, %s)" % (coq_rl(rr), coq_bool(priv), assoc(o["inherited"]),
                                             "None" if obs is None else "(Some %s)" % assoc(obs)))
        c.count(("launch", x["runner"], tuple(sorted(rr.items())), "lower" in x), nontrivial=bool(rr), klass="launch:" + x["runner"])
        if obs is not None:
            exp = expected_limits(rr, o["inherited"])
            for res_, cur_, max_ in x.get("raw", []):
                exp[res_] = (cur_, max_)
            got = {int(k): tuple(v) for k, v in obs.items()}
            if got != exp:
                diff = {k: (exp.get(k), got.get(k)) for k in set(exp) | set(got) if exp.get(k) != got.get(k)}
                c.finding_or_violation({"kind": "limits-in-program", "runner": x["runner"], "rlimits": rr, "expected_vs_observed": diff},
                                       {"case": x, "observed": o})
    body = HDR + "Definition cs := %s.\nDefinition M := Eval vm_compute in failing limits_ok cs.\nPrint M.\n" % coq_list(items)
    for i in nums(c.coq_eval("launch", body)):
        dis.append({"relation": "limits_ok (program's getrlimit vs apply_limits (prepare r))", "case_index": i})
    c.sample({"kind": "launch", "case": lc[2], "observed_limits": lo_[2].get("limits")})

    # ------------------------------------------------------------ collector
    r = c.rng("pipe")
    pcs = []
    caps = [0, 1, 100, 4096, 65536, 1 << 20]
    for cap in caps:
        for total in sorted(set([0, max(cap - 1, 0), cap, cap + 1, cap + 2, 10 * cap + 3])):
            pcs.append({"id": len(pcs), "kind": "pipe", "max": cap, "args": ["emit", str(total), str(r.choice([1, 7, 4096, 65536]) if total < 200000 else 65536)]})
    pcs.append({"id": len(pcs), "kind": "pipe", "max": (1 << 63) - 1, "args": ["emit", "5000", "100"]})
    pcs.append({"id": len(pcs), "kind": "pipe", "max": 16, "args": ["emit", "300000", "64", "128", "1500"]})   # resumes 1.5 s after the cap
    if not c.quick():
        pcs.append({"id": len(pcs), "kind": "pipe", "max": 4096, "args": ["emit", str(64 << 20), "65536"]})
        pcs.append({"id": len(pcs), "kind": "pipe", "max": 1000, "args": ["emit", "400000", "4096", "2000", "4000"]})
    pos = c.run_harness(exe, pcs, env=env, timeout=300)
    items = []
    for x, o in zip(pcs, pos):
        if "harness_err" in o:
            raise RuntimeError(o["harness_err"])
        total = int(x["args"][1])
        items.append("(%s, %s, %s)" % (coq_Z(x["max"]), coq_N(total), coq_N(o["retained"])))
        c.count(("pipe", x["max"], tuple(x["args"])), nontrivial=total > 0, klass="pipe")
        bad = []
        if o["retained"] > x["max"] + 1:
            bad.append("retained %d bytes with cap %d" % (o["retained"], x["max"]))
        if o["writer_exit"] != 0:
            bad.append("the writing program failed (exit %d: 91 = EPIPE, 92 = EAGAIN)" % o["writer_exit"])
        if not o["done"] or not o["content_ok"]:
            bad.append("collector did not finish / wrong content")
        if bad:
            c.finding_or_violation({"kind": "collector", "what": "; ".join(bad), "cap": x["max"], "writer": " ".join(x["args"])}, {"case": x, "observed": o})
    body = HDR + "Definition cs := %s.\nDefinition M := Eval vm_compute in failing pipe_ok cs.\nPrint M.\n" % coq_list(items)
    for i in nums(c.coq_eval("pipe", body)):
        dis.append({"relation": "pipe_ok (Buffer length vs retained_len)", "case": pcs[i], "observed": pos[i]})
    c.sample({"kind": "pipe", "case": pcs[-1], "observed": pos[-1]})

    # ------------------------------------------------------------ exhaustion
    vc = []
    for runner in ("ptrace", "ns", "container"):
        vc.append({"id": len(vc), "kind": "run", "runner": runner, "args": ["spin"], "rlimits": {"cpu": 1, "cpu_hard": 1}, "_expect": [2]})
        vc.append({"id": len(vc), "kind": "run", "runner": runner, "args": ["fsize", "out.dat" if runner == "ptrace" else "/w/out.dat", "100000"],
                   "rlimits": {"fsize": 4096},
                   # the init of a pid namespace ignores SIGXFSZ: write fails with EFBIG and the target exits 95
                   "_expect": [7] if runner == "ns" else [4]})
        vc.append({"id": len(vc), "kind": "run", "runner": runner, "args": ["mem", str(64 << 20)], "ml": 8 << 20,
                   "_expect": [1] if runner == "container" else [3]})
    # beyond a bound of the runner and then dead of a signal: the bound decides the verdict (checked before the wait status)
    for runner in ("ptrace", "ns"):
        vc.append({"id": len(vc), "kind": "run", "runner": runner, "args": ["memfault", str(64 << 20)], "ml": 8 << 20, "_expect": [3]})
        vc.append({"id": len(vc), "kind": "run", "runner": runner, "args": ["spinfault", "700"], "tl_ms": 200, "_expect": [2]})
        vc.append({"id": len(vc), "kind": "run", "runner": runner, "args": ["memfault", str(1 << 20)], "ml": 64 << 20, "_expect": [6]})
    vo = c.run_harness(exe, [{k: v for k, v in x.items() if not k.startswith("_")} for x in vc], env=env, timeout=300)
    items = []
    for x, o in zip(vc, vo):
        if "harness_err" in o:
            raise RuntimeError(o["harness_err"])
        c.count(("verdict", x["runner"], x["args"][0]), klass="exhaust:" + x["args"][0])
        if o["status"] not in x["_expect"]:
            c.finding_or_violation({"kind": "exhaustion-verdict", "runner": x["runner"], "program": x["args"][0],
                                    "expected_status": x["_expect"], "observed_status": o["status"], "exit": o["exit"]}, {"observed": o})
        if x["args"][0] in ("memfault", "spinfault") and o["status"] in (2, 3):
            items.append("(%s, %s, %s, %s, %s)" % (coq_Z(o["time_ns"]), coq_Z(x.get("tl_ms", 20000) * 10 ** 6), coq_N(o["mem"]), coq_N(x.get("ml", 1 << 40)), coq_N(o["status"])))
        if x["args"][0] == "mem":
            if o["mem"] < (60 << 20):
                c.finding_or_violation({"kind": "memory-measurement", "runner": x["runner"], "mem": o["mem"]}, {"observed": o})
            if x["runner"] != "container":
                items.append("(%s, %s, %s, %s, %s)" % (coq_Z(o["time_ns"]), coq_Z(20 * 10 ** 9), coq_N(o["mem"]), coq_N(8 << 20), coq_N(o["status"])))
    body = HDR + "Definition cs := %s.\nDefinition M := Eval vm_compute in failing usage_run_ok cs.\nPrint M.\n" % coq_list(items)
    for i in nums(c.coq_eval("usage", body)):
        dis.append({"relation": "usage_run_ok", "index": i})
    c.sample({"kind": "exhaustion", "case": {k: v for k, v in vc[0].items() if not k.startswith("_")}, "observed": {k: vo[0][k] for k in ("status", "exit", "time_ns")}})
    c.cov["correspondence_disagreements"] = len(dis)
    if dis:
        c.cov["disagreement_samples"] = dis[:5]
        if not c.violations:
            c.violation({"kind": "correspondence-broken", "theorems_no_longer_about_the_code": c.theorems, "disagreements": dis[:10]}, no_input=True)

"""C11 — Cancel / Destroy at any moment end the run promptly with a truthful verdict.
Tie: the cancellation instant is swept over the life of a run in each runner (before the call, during launch — with the
pre-setsid window widened by a 9000-entry descriptor list —, while the program runs, around its natural end), a
cancellation that lands after the program ended, Destroy while a call is in flight.  Observables: elapsed time,
Result, liveness of the program afterwards; compared with the verdict the cancel LTS allows.
Resource profiles: the cancelled program is not only an idle one under generous limits; programs that hold memory / have burnt CPU time
close below the limits of the run (calibrated per runner from an uncancelled run) are cancelled too, and run uncancelled."""
import os
import time

FINISH = dict(level="proof", rule=(
    "runs: {ptrace, namespace, container sync-before, container sync-after} x cancellation instants {before the call, "
    "0.05..3 ms, 10, 50 ms (program alive), around the program's own end at 120 ms, never} x {plain, 9000 listed descriptors}; "
    "late cancellation after the program's end (exit 0 / exit 3 / fatal signal); Destroy 1..100 ms into an Execve; "
    "resource profiles: {ptrace, namespace, container x2} x programs holding 6/14 MiB (thorough: 4..80 MiB) and/or having burnt CPU, with the limits of the run placed "
    "so that the measured peak / CPU time is 30..99.5 % of the limit, cancelled 0..20 ms after the profile is reached, or never.  "
    "Non-trivial: a run that is cancelled while the program is alive; distinct = distinct (runner, instant, shape)."))


def run(c):
    exe = c.build_harness("h_c11")
    c.build_probe("target")
    scratch = c.tmpdir("scratch")
    env = dict(os.environ, VERIF_SCRATCH=scratch)
    r = c.rng("instants")
    cases = []
    inst = [0, 50, 200, 500, 1000, 3000, 10000, 50000, 110000, 120000, 130000, -1]
    if not c.quick():
        inst += [r.randrange(1, 140000) for _ in range(60)] + [100, 300, 700, 1500, 2000, 5000]
    for runner in ("ptrace", "ns", "container", "container_after"):
        for us in inst:
            # cancelled early: a long program, so that "promptly" can be a generous bound that a loaded machine meets and a lost
            # cancellation does not; cancelled around its own end, or not at all: a short one
            long_prog = 0 <= us <= 60000
            cases.append({"id": len(cases), "kind": runner, "args": ["sleep", "6000" if long_prog else "120"], "cancel_us": us, "syncfunc": True})
        if runner in ("ptrace", "ns"):
            for us in ([0, 100, 300, 1000, 2000] if c.quick() else [0, 50, 100, 200, 300, 500, 800, 1000, 1500, 2000, 4000]):
                for rep in range(2 if c.quick() else 6):
                    # (a long program here too: the launch with 9000 descriptors alone takes hundreds of ms on a loaded machine; a lost
                    # cancellation still shows as Normal after 6 s, an honoured one is Time Limit Exceeded within the generous bound)
                    cases.append({"id": len(cases), "kind": runner, "args": ["sleep", "6000"], "cancel_us": us, "nfiles": 9000, "_wide": True})
    # cancellations that land while the tracer is inside a trap (the program traps continuously; the policy bans or allows the call and
    # would refuse any path but the probed one): the verdict of a cancelled run is Time Limit Exceeded, nothing about the policy
    for rep in range(40 if c.quick() else 400):
        cases.append({"id": len(cases), "kind": "ptrace_busy", "args": ["probe", "3000000", "c11probe"], "policy": "ban" if rep % 2 else "allow",
                      "cancel_us": r.randrange(1500, 40000), "_busy": True})
    for args, want in ((["exit", "0"], (1, 0)), (["exit", "3"], (7, 3)), (["sig", "11"], (6, 11)), (["sig", "25"], (4, None))):
        for rep in range(2):
            cases.append({"id": len(cases), "kind": "late_cancel", "args": args, "_want": want})
    for us in ([1000, 20000, 100000] if c.quick() else [500, 1000, 5000, 20000, 50000, 100000, 300000]):
        cases.append({"id": len(cases), "kind": "destroy", "destroy_us": us})
    obs = c.run_harness(exe, [{k: v for k, v in x.items() if not k.startswith("_")} for x in cases], env=env, timeout=1500)
    for x, o in zip(cases, obs):
        if "harness_err" in o:
            raise RuntimeError(o["harness_err"])
        kind = x["kind"]
        canon = lambda what, **kw: dict({"kind": "cancel", "what": what, "runner": kind, "cancel_us": x.get("cancel_us"),
                                         "wide_setsid_window": bool(x.get("_wide"))}, **kw)
        if kind == "destroy":
            c.count(("destroy", x["destroy_us"]), klass="destroy")
            bad = []
            if o.get("call_hangs"):
                bad.append("the call in flight did not return within 5 s of Destroy")
            elif o.get("status") != 8 or o.get("call_returned_ms", 0) > 2000:
                bad.append("the call in flight returned status %s after %s ms" % (o.get("status"), o.get("call_returned_ms")))
            if o.get("destroy_hangs"):
                bad.append("Destroy did not return")
            if o.get("program_alive"):
                bad.append("the program survived Destroy")
            if bad:
                c.finding_or_violation({"kind": "destroy-in-flight", "what": "; ".join(bad), "destroy_us": x["destroy_us"]}, {"observed": o})
            continue
        if o.get("hang"):
            c.finding_or_violation(canon("the run did not return within 10 s"), {"case": x})
            continue
        st = o["status"]
        if x.get("_busy"):
            c.count(("busy", x["policy"], x["cancel_us"]), nontrivial=True, klass="busy-trap:" + x["policy"])
            if st != 2 or o["us"] > x["cancel_us"] + 1000000:
                c.finding_or_violation({"kind": "cancel", "what": "a run cancelled while its tracer handles a trap does not end as Time Limit Exceeded", "policy": x["policy"],
                                        "status": st, "error": o["errmsg"][:60]}, {"case": x, "observed": o}, klass="busy:%s:%d" % (x["policy"], st))
            continue
        if kind == "late_cancel":
            c.count(("late", tuple(x["args"])), klass="late-cancel")
            ws, we = x["_want"]
            if st != ws or (we is not None and o["exit"] != we):
                c.finding_or_violation({"kind": "cancel", "what": "a cancellation after the program's end replaced its genuine verdict",
                                        "program": " ".join(x["args"]), "expected": [ws, we], "observed": [st, o["exit"]]}, {"observed": o})
            continue
        us = x["cancel_us"]
        prog_ms = int(x["args"][1])
        c.count((kind, us, x.get("nfiles")), nontrivial=0 <= us < prog_ms * 1000, klass="%s:%s" % (kind, "wide" if x.get("_wide") else "plain"))
        # the cancel LTS allows: the program's own verdict (Normal here) or Time Limit Exceeded; nothing else
        if st not in (1, 2):
            c.finding_or_violation(canon("verdict is neither the program's own nor Time Limit Exceeded", status=st, error=o["errmsg"][:80]),
                                   {"case": x, "observed": o}, klass="verdict:%s" % kind)
        elapsed = o["us"]
        if us < 0:
            if st != 1:
                c.finding_or_violation(canon("an uncancelled run did not end Normal", status=st), {"observed": o})
        else:
            # cancelled well before the program's own end: it must not be allowed to run to completion
            if us + 60000 < prog_ms * 1000:
                # "promptly": seconds, not milliseconds, so that a loaded machine meets it; the programs cancelled early live 6 s, so a
                # lost cancellation shows as Normal (or as a run of 6 s) whatever the load
                bound = us + (3000000 if prog_ms >= 1000 else 60000) + (150000 if x.get("nfiles") else 0)
                if st != 2 or elapsed > bound:
                    c.finding_or_violation(canon("the cancellation was lost or late", status=st, elapsed_us=elapsed),
                                           {"case": x, "observed": o}, klass="lost:%s" % kind)
            if elapsed > prog_ms * 1000 + 3000000:
                c.finding_or_violation(canon("the run did not return promptly", elapsed_us=elapsed), {"observed": o})
        # (with sync after exec the callback is given the pid of the container init, which rightly lives on)
        if o["program_alive"] and kind != "container_after":
            c.finding_or_violation(canon("the program is still alive after the run returned"), {"observed": o})
    profiles(c, exe, env)
    c.sample({"case": {k: v for k, v in cases[3].items() if not k.startswith("_")}, "observed": obs[3]})
    c.sample({"case": {k: v for k, v in cases[-1].items() if not k.startswith("_")}, "observed": obs[-1]})
    c.cov["runs"] = len(cases)
    c.cov["states"] = 3252 + 40
    c.cov["traces_validated_against_impl"] = len(cases)


# ---------------------------------------------------------------- cancelled programs with a resource profile
STATUS = {0: "Invalid", 1: "Normal", 2: "Time Limit Exceeded", 3: "Memory Limit Exceeded", 4: "Output Limit Exceeded", 5: "Disallowed Syscall",
          6: "Signalled", 7: "Nonzero Exit Status", 8: "Runner Error"}
BIG_MEM, BIG_TIME_MS = 1 << 30, 20000
LIVE_MS = 8000           # how long the program lives on after it reached its profile (far longer than any bound below)
RETURN_BOUND_US = 3000000  # a cancelled run returns within this time of the cancellation


def profiles(c, exe, env):
    """The verdict of a cancelled run says "time is up" whatever the program had consumed by then, as long as it stayed within its limits:
    the user reads Memory Limit Exceeded as "the program needs more memory than allowed".  The limits are placed relative to the usage
    the same runner measures for the same program in an uncancelled run."""
    r = c.rng("profiles")
    quick = c.quick()
    t_start = time.time()
    limited = ("ptrace", "ns")            # runners that are given a Limit and judge the usage against it
    unlimited = ("container", "container_after")  # (the container reports the usage; the caller judges)
    # (an idle probe program has a peak of about 2 MiB; first touches of memory are slow on a loaded virtual machine: moderate sizes)
    mems = [6 << 20, 14 << 20] if quick else [4 << 20, 6 << 20, 14 << 20, 32 << 20, 80 << 20]
    cpu_ms = 60
    # -- calibration: the same program, uncancelled, under limits far away: what does this runner measure?
    cal = []
    for runner in limited:
        for mem in mems:
            cal.append({"id": len(cal), "kind": "profile", "runner": runner, "mem_bytes": mem, "cpu_ms": 0, "live_ms": 0,
                        "limit_mem": BIG_MEM, "limit_time_ms": BIG_TIME_MS, "cancel_after_ready_us": -1})
        cal.append({"id": len(cal), "kind": "profile", "runner": runner, "mem_bytes": 0, "cpu_ms": cpu_ms, "live_ms": 0,
                    "limit_mem": BIG_MEM, "limit_time_ms": BIG_TIME_MS, "cancel_after_ready_us": -1})
    peak, burnt = {}, {}
    for x, o in zip(cal, c.run_harness(exe, cal, env=env, timeout=900)):
        if "harness_err" in o:
            raise RuntimeError(o["harness_err"])
        c.count(("profile-calibration", x["runner"], x["mem_bytes"], x["cpu_ms"]), nontrivial=False, klass="profile:calibration")
        if o.get("hang") or o.get("status") != 1 or not o.get("ready"):
            c.finding_or_violation({"kind": "cancel-profile", "what": "an uncancelled run far below its limits did not end Normal", "runner": x["runner"],
                                    "status": o.get("status"), "hang": bool(o.get("hang"))}, {"case": x, "observed": o}, klass="profile-calibration")
            continue
        if x["mem_bytes"]:
            peak[(x["runner"], x["mem_bytes"])] = o["memory"]
            if o["memory"] < x["mem_bytes"]:
                raise RuntimeError("calibration: %s measured a peak of %d for a program that holds %d bytes" % (x["runner"], o["memory"], x["mem_bytes"]))
        else:
            burnt[x["runner"]] = o["time_us"]
    # -- the profiles: (fraction of the memory limit the peak takes, fraction of the time limit the burnt CPU time takes)
    # (the peak of one program varies by about 1.6 % from run to run: 0.98 is the closest place that is reliably below the limit)
    fr = [(0.5, 0), (0.8, 0), (0.9, 0), (0.95, 0), (0.98, 0), (0.3, 0.85), (0.97, 0.85)]
    if not quick:
        fr += [(round(r.uniform(0.3, 0.995), 3), r.choice([0, 0, 0.5, 0.85])) for _ in range(24)] + [(0.875, 0), (0.88, 0), (0.99, 0), (0.995, 0), (0.75, 0.9)]
    after = [0, 1000, 20000]
    cases = []

    def add(runner, mem, fm, ft, cancel):
        if runner in unlimited:
            # no limit to place: the profile alone (ft: does the program burn CPU first)
            cases.append({"id": len(cases), "kind": "profile", "runner": runner, "mem_bytes": mem, "cpu_ms": cpu_ms if ft else 0, "live_ms": LIVE_MS,
                          "limit_mem": BIG_MEM, "limit_time_ms": BIG_TIME_MS, "cancel_after_ready_us": cancel, "_fm": 0, "_ft": 0, "_calibrated_peak": None})
            return
        if (runner, mem) not in peak or (ft and runner not in burnt):
            return
        lm = int(peak[(runner, mem)] / fm) + 4096 if fm else BIG_MEM
        lt = int(max(burnt[runner] / 1000.0, cpu_ms) / ft) + 1 if ft else BIG_TIME_MS
        cases.append({"id": len(cases), "kind": "profile", "runner": runner, "mem_bytes": mem, "cpu_ms": cpu_ms if ft else 0, "live_ms": LIVE_MS if cancel >= 0 else 0,
                      "limit_mem": lm, "limit_time_ms": lt, "cancel_after_ready_us": cancel, "_fm": fm, "_ft": ft, "_calibrated_peak": peak[(runner, mem)]})

    for runner in limited:
        for i, (fm, ft) in enumerate(fr):
            # quick: each fraction with one of the two sizes; thorough: with one of the sizes (the smaller ones more often: first touches
            # of memory cost up to 50 ms per MiB on a loaded virtual machine)
            some = None if quick else r.choice([0, 0, 1, 1, 2, 2, 3, 3, 4])
            for j, mem in enumerate(mems):
                if (i + j) % 2 if quick else j != some:
                    continue
                add(runner, mem, fm, ft, after[(i + j) % len(after)] if quick else r.choice(after + [r.randrange(0, 50000)]))
        # the same programs close below their limits, never cancelled: their own verdict
        add(runner, mems[0], 0.95, 0, -1)
        if not quick:
            add(runner, mems[-1], 0.99, 0.85, -1)
    for runner in unlimited:
        for j, mem in enumerate(mems[1:] if quick else mems):
            add(runner, mem, 0, 0, after[j % len(after)])
        add(runner, mems[0], 0, 1, 1000)
    obs = c.run_harness(exe, [{k: v for k, v in x.items() if not k.startswith("_")} for x in cases], env=env, timeout=1500)
    for x, o in zip(cases, obs):
        if "harness_err" in o:
            raise RuntimeError(o["harness_err"])
        runner, cancel = x["runner"], x["cancel_after_ready_us"]
        canon = lambda what, **kw: dict({"kind": "cancel-profile", "what": what, "runner": runner, "cancel_after_profile_reached_us": cancel,
                                         "peak_fraction_of_memory_limit": x["_fm"], "cpu_fraction_of_time_limit": x["_ft"]}, **kw)
        replay = {"case": x, "observed": o,
                  "history": "%s runner; program touches and keeps %d bytes%s, reports it, then sleeps; Limit{Memory %d bytes, Time %d ms}; context %s"
                             % (runner, x["mem_bytes"], ", burns %d ms of CPU" % x["cpu_ms"] if x["cpu_ms"] else "", x["limit_mem"], x["limit_time_ms"],
                                "cancelled %d us after the report" % cancel if cancel >= 0 else "never cancelled")}
        if o.get("hang"):
            c.count(("profile", runner, x["_fm"], x["_ft"], cancel), klass="profile:" + runner)
            c.finding_or_violation(canon("the run did not return within 30 s"), replay, klass="profile-hang:" + runner)
            continue
        if not o.get("ready"):
            raise RuntimeError("profile case %r: the program never reported its profile: %r" % (x, o))
        st = o["status"]
        # did the program stay within the limits of the run, by the runner's own measurement?
        within_mem = o["memory"] <= x["limit_mem"]
        within_time = o["time_us"] <= x["limit_time_ms"] * 1000
        cancelled = bool(o.get("cancelled"))
        c.count(("profile", runner, x["mem_bytes"], x["_fm"], x["_ft"], cancel), nontrivial=cancelled and within_mem and within_time,
                klass="profile:%s:%s" % (runner, "cancelled" if cancelled else "uncancelled"))
        replay["expected"] = ("Time Limit Exceeded (the program was alive and within its limits when the context was cancelled)" if cancelled
                              else "Normal, exit 0 (the program's own verdict: it stays within its limits and exits 0)")
        replay["observed_verdict"] = "%s (exit status %s), memory %s of limit %s, cpu time %s us of limit %s ms" % (
            STATUS.get(st, st), o["exit"], o["memory"], x["limit_mem"], o["time_us"], x["limit_time_ms"])
        if not (within_mem and within_time):
            # the measured usage passed a limit (the calibration was off): a limit verdict is then a genuine one; nothing to compare
            allowed = {2} | ({3} if not within_mem else set())
            if st not in allowed:
                c.finding_or_violation(canon("a run whose usage passed a limit ended with another verdict", status=st), replay, klass="profile-over:" + runner)
            continue
        if cancelled:
            if st == 1:
                c.finding_or_violation(canon("the cancellation was lost", status=st), replay, klass="profile-lost:" + runner)
            elif st != 2:
                c.finding_or_violation(canon("a cancelled run of a program within its limits is not reported as Time Limit Exceeded",
                                             status=st, verdict=STATUS.get(st, str(st)), error=o["errmsg"][:80]), replay, klass="profile-verdict:" + runner)
            if o.get("cancel_to_return_us", 0) > RETURN_BOUND_US:
                c.finding_or_violation(canon("the run did not return promptly after the cancellation", cancel_to_return_us=o["cancel_to_return_us"]),
                                       replay, klass="profile-late:" + runner)
            if o["program_alive"] and runner != "container_after":
                c.finding_or_violation(canon("the program is still alive after the run returned"), replay, klass="profile-alive:" + runner)
        else:
            if st != 1 or o["exit"] != 0:
                c.finding_or_violation(canon("an uncancelled run of a program within its limits did not end Normal", status=st, verdict=STATUS.get(st, str(st))),
                                       replay, klass="profile-own:" + runner)
    if cases:
        c.sample({"case": {k: v for k, v in cases[4].items() if not k.startswith("_")}, "observed": obs[4]})
    c.cov["profile_runs"] = len(cases)
    c.cov["profile_wall_s"] = round(time.time() - t_start, 1)
    c.log("resource profiles: %d calibration runs, %d runs, %.1f s" % (len(cal), len(cases), time.time() - t_start))
    c.cov["profile_calibration"] = {"%s/%d" % k: v for k, v in peak.items()}

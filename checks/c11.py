"""C11 — Cancel / Destroy at any moment end the run promptly with a truthful verdict.
Tie: the cancellation instant is swept over the life of a run in each runner (before the call, during launch — with the
pre-setsid window widened by a 9000-entry descriptor list —, while the program runs, around its natural end), a
cancellation that lands after the program ended, Destroy while a call is in flight.  Observables: elapsed time,
Result, liveness of the program afterwards; compared with the verdict the cancel LTS allows."""
import os

FINISH = dict(level="proof", rule=(
    "runs: {ptrace, namespace, container sync-before, container sync-after} x cancellation instants {before the call, "
    "0.05..3 ms, 10, 50 ms (program alive), around the program's own end at 120 ms, never} x {plain, 9000 listed descriptors}; "
    "late cancellation after the program's end (exit 0 / exit 3 / fatal signal); Destroy 1..100 ms into an Execve.  "
    "Non-trivial: a run that is cancelled while the program is alive; distinct = distinct (runner, instant, shape)."))


def run(c):
    exe = c.build_harness("h_c11")
    c.build_probe("target")
    scratch = c.tmpdir("scratch")
    env = dict(os.environ, VERIF_SCRATCH=scratch)
    r = c.rng("instants")
    cases = []
    inst = [0, 50, 200, 500, 1000, 3000, 10000, 50000, 110000, 120000, 130000, -1]
    if not c.quick():
        inst += [r.randrange(1, 140000) for _ in range(60)] + [100, 300, 700, 1500, 2000, 5000]
    for runner in ("ptrace", "ns", "container", "container_after"):
        for us in inst:
            # cancelled early: a long program, so that "promptly" can be a generous bound that a loaded machine meets and a lost
            # cancellation does not; cancelled around its own end, or not at all: a short one
            long_prog = 0 <= us <= 60000
            cases.append({"id": len(cases), "kind": runner, "args": ["sleep", "1500" if long_prog else "120"], "cancel_us": us, "syncfunc": True})
        if runner in ("ptrace", "ns"):
            for us in ([0, 100, 300, 1000, 2000] if c.quick() else [0, 50, 100, 200, 300, 500, 800, 1000, 1500, 2000, 4000]):
                for rep in range(2 if c.quick() else 6):
                    cases.append({"id": len(cases), "kind": runner, "args": ["sleep", "400"], "cancel_us": us, "nfiles": 9000, "_wide": True})
    # cancellations that land while the tracer is inside a trap (the program traps continuously; the policy bans or allows the call and
    # would refuse any path but the probed one): the verdict of a cancelled run is Time Limit Exceeded, nothing about the policy
    for rep in range(40 if c.quick() else 400):
        cases.append({"id": len(cases), "kind": "ptrace_busy", "args": ["probe", "3000000", "c11probe"], "policy": "ban" if rep % 2 else "allow",
                      "cancel_us": r.randrange(1500, 40000), "_busy": True})
    for args, want in ((["exit", "0"], (1, 0)), (["exit", "3"], (7, 3)), (["sig", "11"], (6, 11)), (["sig", "25"], (4, None))):
        for rep in range(2):
            cases.append({"id": len(cases), "kind": "late_cancel", "args": args, "_want": want})
    for us in ([1000, 20000, 100000] if c.quick() else [500, 1000, 5000, 20000, 50000, 100000, 300000]):
        cases.append({"id": len(cases), "kind": "destroy", "destroy_us": us})
    obs = c.run_harness(exe, [{k: v for k, v in x.items() if not k.startswith("_")} for x in cases], env=env, timeout=1500)
    for x, o in zip(cases, obs):
        if "harness_err" in o:
            raise RuntimeError(o["harness_err"])
        kind = x["kind"]
        canon = lambda what, **kw: dict({"kind": "cancel", "what": what, "runner": kind, "cancel_us": x.get("cancel_us"),
                                         "wide_setsid_window": bool(x.get("_wide"))}, **kw)
        if kind == "destroy":
            c.count(("destroy", x["destroy_us"]), klass="destroy")
            bad = []
            if o.get("call_hangs"):
                bad.append("the call in flight did not return within 5 s of Destroy")
            elif o.get("status") != 8 or o.get("call_returned_ms", 0) > 2000:
                bad.append("the call in flight returned status %s after %s ms" % (o.get("status"), o.get("call_returned_ms")))
            if o.get("destroy_hangs"):
                bad.append("Destroy did not return")
            if o.get("program_alive"):
                bad.append("the program survived Destroy")
            if bad:
                c.finding_or_violation({"kind": "destroy-in-flight", "what": "; ".join(bad), "destroy_us": x["destroy_us"]}, {"observed": o})
            continue
        if o.get("hang"):
            c.finding_or_violation(canon("the run did not return within 10 s"), {"case": x})
            continue
        st = o["status"]
        if x.get("_busy"):
            c.count(("busy", x["policy"], x["cancel_us"]), nontrivial=True, klass="busy-trap:" + x["policy"])
            if st != 2 or o["us"] > x["cancel_us"] + 1000000:
                c.finding_or_violation({"kind": "cancel", "what": "a run cancelled while its tracer handles a trap does not end as Time Limit Exceeded", "policy": x["policy"],
                                        "status": st, "error": o["errmsg"][:60]}, {"case": x, "observed": o}, klass="busy:%s:%d" % (x["policy"], st))
            continue
        if kind == "late_cancel":
            c.count(("late", tuple(x["args"])), klass="late-cancel")
            ws, we = x["_want"]
            if st != ws or (we is not None and o["exit"] != we):
                c.finding_or_violation({"kind": "cancel", "what": "a cancellation after the program's end replaced its genuine verdict",
                                        "program": " ".join(x["args"]), "expected": [ws, we], "observed": [st, o["exit"]]}, {"observed": o})
            continue
        us = x["cancel_us"]
        prog_ms = int(x["args"][1])
        c.count((kind, us, x.get("nfiles")), nontrivial=0 <= us < prog_ms * 1000, klass="%s:%s" % (kind, "wide" if x.get("_wide") else "plain"))
        # the cancel LTS allows: the program's own verdict (Normal here) or Time Limit Exceeded; nothing else
        if st not in (1, 2):
            c.finding_or_violation(canon("verdict is neither the program's own nor Time Limit Exceeded", status=st, error=o["errmsg"][:80]),
                                   {"case": x, "observed": o}, klass="verdict:%s" % kind)
        elapsed = o["us"]
        if us < 0:
            if st != 1:
                c.finding_or_violation(canon("an uncancelled run did not end Normal", status=st), {"observed": o})
        else:
            # cancelled well before the program's own end: it must not be allowed to run to completion
            if us + 60000 < prog_ms * 1000:
                bound = us + (500000 if prog_ms >= 1000 else 60000) + (150000 if x.get("nfiles") else 0)
                if st != 2 or elapsed > bound:
                    c.finding_or_violation(canon("the cancellation was lost or late", status=st, elapsed_us=elapsed),
                                           {"case": x, "observed": o}, klass="lost:%s" % kind)
            if elapsed > prog_ms * 1000 + 400000:
                c.finding_or_violation(canon("the run did not return promptly", elapsed_us=elapsed), {"observed": o})
        # (with sync after exec the callback is given the pid of the container init, which rightly lives on)
        if o["program_alive"] and kind != "container_after":
            c.finding_or_violation(canon("the program is still alive after the run returned"), {"observed": o})
    c.sample({"case": {k: v for k, v in cases[3].items() if not k.startswith("_")}, "observed": obs[3]})
    c.sample({"case": {k: v for k, v in cases[-1].items() if not k.startswith("_")}, "observed": obs[-1]})
    c.cov["runs"] = len(cases)
    c.cov["states"] = 3252 + 40
    c.cov["traces_validated_against_impl"] = len(cases)

"""C10 — container RPC never desynchronises; program-caused failures keep it usable.
Tie: random histories of API calls on a real environment (every failure class of Execve, sync before / after exec,
failing callbacks, cancellation, batches), wire-level logs of both endpoints replayed in Coq against host_steps /
cont_steps (the functions of the LTS the theorems are about).  Oracle: every call gets an answer of its own class,
no transport-class failure without loss of the transport, Ping and Execve(/bin/true) succeed after every history.
Also: programs whose descendants have left their process group / session when the program ends or is killed (every call after
such a run must be answered), and one environment used by several callers at once while the callback of an Execve is running
(every caller gets the answer of ITS call, nothing is started before the callback has returned)."""
import json
import os
import time

from vlib import coq_list

FINISH = dict(level="proof", rule=(
    "histories of 1..30 operations over {Ping, Open, Delete, Symlink, Reset, Execve(params)} where each Execve draws its class: "
    "runs (exit 0 / non-zero / killed by a signal / cancelled while sleeping), unknown relative name, missing absolute path, "
    "no exec bit, malformed executable, script with a missing interpreter, empty argument list, failing callback — each "
    "with sync before or after exec and with or without a callback; programs that leave descendants outside their process "
    "group / session (setsid, setpgid, daemon, joined foreign group, nested sessions) and end by themselves, are cancelled or "
    "are refused by a callback that answers late, each followed by further calls; groups of 1..4 callers that use one "
    "environment at the same time as an Execve whose callback takes 120..300 ms (callers arriving before the call, with it, "
    "and inside the callback).  Non-trivial: a history containing at least one failing "
    "Execve; distinct = distinct histories."))

HDR = "From Coq Require Import List.\nImport ListNotations.\nFrom GS Require Import Container.Proto Container.EvalProto.\n"
T = "/vb/probe_target"
ESC = "/vb/probe_c10esc"
ESC_MODES = ["setsid", "setpgid", "daemon", "joinpg", "nested", "ingroup"]
CMDK = {"ping": 0, "open": 0, "delete": 0, "reset": 0, "symlink": 0, "conf": 0, "execve": 1, "ok": 2, "kill": 3}
REPK = {"ack": 0, "err": 1, "result": 3}
TRANSPORT_WORDS = ("EOF", "closed", "broken pipe", "recvReply", "sendCmd", "too large", "connection", "ack failed", "no reply received")


def exec_op(r):
    k = r.choice(["true", "true", "exit3", "sig9", "sleepcancel", "relmissing", "absmissing", "noexec", "badelf", "script",
                  "emptyargv", "cbfail", "cbfail", "exitcross", "exitcross", "exitcross", "badfilter", "badfilter", "goodfilter",
                  "escape", "escape"])
    sync = r.choice([None, "ok"])
    sa = r.random() < 0.4
    o = {"op": "exec", "_class": k, "sync_after": sa}
    if sync:
        o["sync"] = sync
    if k == "true":
        o["args"], o["_expect"] = ["/bin/true"], [1]
    elif k == "exit3":
        o["args"], o["_expect"] = [T, "exit", "3"], [7]
    elif k == "sig9":
        o["args"], o["_expect"] = [T, "sig", "9"], [2]
    elif k == "sleepcancel":
        o["args"], o["cancel_ms"], o["_expect"] = [T, "sleep", "3000"], r.choice([0, 1, 5, 30]), [2, 8]
    elif k == "exitcross":
        # the cancellation arrives about when the program ends by itself: either verdict is right, the protocol must stay in step
        if r.random() < 0.5:
            o["args"], o["cancel_ms"], o["_expect"] = [T, "exit", "0"], r.choice([1, 2, 3, 4, 5, 6, 8, 10]), [1, 2, 8]
        else:
            ms = r.choice([5, 10, 20])
            o["args"], o["cancel_ms"], o["_expect"] = [T, "sleep", str(ms)], ms + r.choice([2, 3, 4, 5, 6, 8]), [1, 2, 8]
    elif k == "badfilter":
        # a seccomp filter the kernel refuses: the launch fails where the filter is loaded (before or after the sync, depending on the environment)
        o["args"], o["seccomp"], o["_expect"] = ["/bin/true"], "bad", [8]
    elif k == "goodfilter":
        o["args"], o["seccomp"], o["_expect"] = ["/bin/true"], "ok", [1]
    elif k == "escape":
        # descendants of the program are outside its process group / session when it ends (or is cancelled)
        mode, n = r.choice(ESC_MODES), r.choice([1, 1, 2, 3])
        if r.random() < 0.3:
            o["args"], o["cancel_ms"], o["_expect"] = [ESC, mode, "0", "-1", str(n)], r.choice([100, 200, 400]), [2, 8]
        else:
            code = r.choice([0, 0, 3, 41])
            o["args"], o["_expect"] = [ESC, mode, str(code), str(r.choice([0, 0, 5, 40])), str(n)], [1 if code == 0 else 7]
    elif k == "relmissing":
        o["args"], o["_expect"] = ["no_such_command_xyz"], [8]
    elif k == "absmissing":
        o["args"], o["_expect"] = ["/w/missing"], [8]
    elif k == "noexec":
        o["args"], o["_expect"] = ["/w/noexec"], [8]
    elif k == "badelf":
        o["args"], o["_expect"] = ["/w/badelf"], [8]
    elif k == "script":
        o["args"], o["_expect"] = ["/w/script"], [8]
    elif k == "emptyargv":
        o["args"], o["_expect"] = [], [8]
    else:
        o["args"], o["sync"], o["_expect"] = ["/bin/true"], "fail", [8]
    return o


def wire_events(logs):
    hev = [("Snd %d" % CMDK[l.split()[1]]) if l.startswith("send") else ("Rcv %d" % REPK[l.split()[1]]) for l in (logs.get("host") or [])]
    cev = []
    for l in (logs.get("cont") or []):
        p = l.split()
        if p[0] != "VERIF":
            continue
        cev.append(("Rcv %d" % CMDK[p[2]]) if p[1] == "recv" else ("Snd %d" % REPK[p[2]]))
    return hev, cev


def wire(logs):
    hev, cev = wire_events(logs)
    return coq_list(hev), coq_list(cev)


def transportish(e):
    return bool(e) and any(w in e for w in TRANSPORT_WORDS + ("timeout", "i/o"))


def answer_of(op, ob):
    """What is wrong with the answer `ob` of the single call `op` (None: it is the answer this call has to get).  The expectation is
    part of the op ("_want"): ok | error (an error of this call, the transport is fine) | content:<text> | item-error |
    status:<s>[:<exit>] (several allowed, separated by '|')."""
    want = op["_want"]
    if ob is None or not ob.get("returned", True):
        return "the call never returned"
    if op["op"] == "exec":
        if ob.get("status") == 8 and transportish(ob.get("errmsg")):
            return "transport-class failure although the transport is intact: %s" % ob.get("errmsg", "")[:90]
        for alt in want.split("|"):
            f = alt.split(":")
            if f[0] == "status" and ob.get("status") == int(f[1]) and (len(f) < 3 or ob.get("exit") == int(f[2])):
                return None
        return "answered with status %s exit %s %s" % (ob.get("status"), ob.get("exit"), (ob.get("errmsg") or "")[:90])
    e = ob.get("err")
    if transportish(e):
        return "transport-class failure although the transport is intact: %s" % e[:90]
    if want == "ok":
        if e:
            return "answered with an error: %s" % e[:90]
        if op["op"] == "symlink" and ob.get("results") != [None]:
            return "answered with %r instead of one success" % (ob.get("results"),)
        return None
    if want == "error":
        return None if e else "reports success (an answer that cannot be this call's)"
    if e:
        return "answered with an error: %s" % e[:90]
    if ob.get("n_results") != 1:
        return "answered with %s results for one item" % ob.get("n_results")
    if want == "item-error":
        return None if ob.get("item_err") else "the item that cannot be opened is reported as opened"
    if ob.get("item_err"):
        return "the item is reported as failed: %s" % ob["item_err"][:90]
    return None if ob.get("content") == want.split(":", 1)[1] else "the descriptor reads %r" % ob.get("content")


def strip(ops):
    if isinstance(ops, list):
        return [strip(o) for o in ops]
    if isinstance(ops, dict):
        return {k: strip(v) for k, v in ops.items() if not k.startswith("_")}
    return ops


def followups(r, tag, n):
    """n calls whose answers can be told apart from the answer of any other call"""
    out = []
    for j in range(n):
        k = r.choice(["ping", "exec", "delete", "create", "readback", "symlink", "missing"])
        if k == "ping":
            out.append({"op": "ping", "_want": "ok"})
        elif k == "exec":
            code = r.randint(2, 120)
            out.append({"op": "exec", "args": [T, "exit", str(code)], "_want": "status:7:%d" % code})
        elif k == "delete":
            out.append({"op": "delete", "path": "/w/none-%s-%d" % (tag, j), "_want": "error"})
        elif k == "create":
            out.append({"op": "open", "path": "/w/f-%s-%d" % (tag, j), "flag": 0o102, "perm": 0o600, "write": "c-%s-%d" % (tag, j), "_want": "ok"})
            out.append({"op": "open", "path": "/w/f-%s-%d" % (tag, j), "flag": 0, "perm": 0, "read": True, "_want": "content:c-%s-%d" % (tag, j)})
        elif k == "readback":
            out.append({"op": "open", "path": "/w/known", "flag": 0, "perm": 0, "read": True, "_want": "content:known"})
        elif k == "symlink":
            out.append({"op": "symlink", "link": "/w/l-%s-%d" % (tag, j), "target": "known", "_want": "ok"})
        else:
            out.append({"op": "open", "path": "/w/nodir-%s/x" % tag, "flag": 0, "perm": 0, "_want": "item-error"})
    return out


KNOWN = {"op": "open", "path": "/w/known", "flag": 0o102, "perm": 0o600, "write": "known", "_want": "ok"}


def escaped_descendants(c, exe2, env):
    """A program may do with its process tree what it likes: its descendants may be in other process groups and sessions than the
    program when it ends, is cancelled, or is refused by the callback.  That is a matter of the program ("failures caused by ... the
    program ... leave the environment fully usable", "every call returns exactly one answer"): the run gets its own verdict and every
    call after it is answered with its own answer."""
    r = c.rng("escaped")
    nh = 7 if c.quick() else 60
    ends = ["exit0", "exit", "cancel", "latefail", "exit", "cancel"]
    cases = []
    for hid in range(nh):
        ops = [{"op": "newenv", "unshare_cgroup": hid % 3 == 2}, dict(KNOWN)]
        for k in range(r.choice([1, 2, 2, 3])):
            mode = ESC_MODES[(hid + 2 * k) % len(ESC_MODES)] if k < 2 else r.choice(ESC_MODES)
            end = ends[(hid + k) % len(ends)] if k < 2 else r.choice(ends)
            n = r.choice([1, 1, 2, 4])
            o = {"op": "exec", "_escape": mode, "_end": end, "sync_after": r.random() < 0.4}
            if r.random() < 0.5:
                o["sync"], o["sync_ms"] = "ok", r.choice([0, 0, 30])
            if end == "exit0":
                o["args"], o["_want"] = [ESC, mode, "0", str(r.choice([0, 10, 60])), str(n)], "status:1"
            elif end == "exit":
                code = r.randint(2, 120)
                o["args"], o["_want"] = [ESC, mode, str(code), str(r.choice([0, 10, 60])), str(n)], "status:7:%d" % code
            elif end == "cancel":
                # the time limit of the caller: the program is killed while its descendants are elsewhere
                o["args"], o["cancel_ms"], o["_want"] = [ESC, mode, "0", "-1", str(n)], r.choice([200, 400, 700]), "status:2|status:8"
            else:
                # started first, synchronised afterwards, and the callback says no after the program has rearranged its tree
                o["args"], o["sync_after"], o["sync"], o["sync_ms"], o["_want"] = [ESC, mode, "0", "-1", str(n)], True, "fail", r.choice([300, 500]), "status:8"
            ops.append(o)
            ops += followups(r, "e%d-%d" % (hid, k), r.randint(1, 3))
        ops += [{"op": "ping", "_want": "ok"}, {"op": "exec", "args": ["/bin/true"], "_want": "status:1"}, {"op": "logs"}]
        cases.append({"id": hid, "ops": ops})
    good_logs, obs = [], []
    escaped_runs = nbad = 0
    for x in cases:
        if nbad >= 2:
            break   # two histories have shown it; every further one costs the 12 s of a call that does not return
        # one process per history: a call that never returns may hold the fork lock of its process for ever
        o = c.run_harness(exe2, [{"id": x["id"], "ops": strip(x["ops"])}], env=env, timeout=300)[0]
        obs.append(o)
        if "harness_err" in o:
            raise RuntimeError(o["harness_err"])
        last_escape = None
        clean = True
        for i, (op, ob) in enumerate(zip(x["ops"], o["obs"])):
            if "_want" not in op:
                continue
            bad = answer_of(op, None if ob.get("hang") else ob)
            if bad is None and ob.get("ms", 0) > 8000:
                bad = "the call took %d ms" % ob["ms"]
            if "_escape" in op:
                last_escape = op
                if ob.get("stdout") == "up":
                    escaped_runs += 1
            if bad:
                clean = False
                after = (" after a program that left descendants outside its process group (%s, %s)" % (last_escape["_escape"], last_escape["_end"])) \
                    if last_escape is not None and last_escape is not op else ""
                c.finding_or_violation({"kind": "rpc", "what": "%s: %s" % ("the run itself" if last_escape is op else "a call" + after, bad.split(":")[0]),
                                        "op": op["op"], "class": "escaped-descendants"},
                                       {"history": x["ops"][:i + 1], "failing_call": op, "expected": op["_want"], "observed_answer": ob, "what": bad,
                                        "observed": o["obs"]}, klass="escaped-descendants")
                break
        nbad += 0 if clean else 1
        c.count(json.dumps(strip(x["ops"])), nontrivial=True, klass="history:escaped-descendants")
        if not o.get("hang") and o["obs"] and o["obs"][-1].get("op") == "logs":
            good_logs.append(o["obs"][-1])
    c.cov["escaped_descendant_histories"] = len(obs)
    c.cov["escaped_descendant_runs_confirmed_up"] = escaped_runs
    if obs and len(obs[0].get("obs", [])) > 3:
        c.sample({"escaped_descendants": strip(cases[0]["ops"][2:5]), "observed": [{k: v for k, v in ob.items()} for ob in obs[0]["obs"][2:5]]})
    return good_logs


def callers_at_once(c, exe2, env):
    """One environment, several callers at the same time, while an Execve is inside its callback (attaching the process to a cgroup
    takes a while).  "Every call returns exactly one answer and that answer belongs to that call; host and container always agree on
    which command is in progress": whoever calls while another call is in progress gets the answer of his own call, the Execve gets
    its own verdict, and a program that is synchronised before exec has not run when the callback returns."""
    r = c.rng("callers")
    ng = 8 if c.quick() else 60
    cases = []
    for g in range(ng):
        tag = "g%d" % g
        fail = g % 4 == 2
        sync_after = g % 4 == 3 or (g >= 4 and r.random() < 0.3)
        code = r.randint(2, 120)
        mark = "/w/mark-%s" % tag
        main = {"op": "exec", "args": [ESC, "mark", mark, str(code)], "sync": "fail" if fail else "ok", "sync_ms": r.choice([120, 200, 300]),
                "sync_after": sync_after, "_want": "status:8" if fail else "status:7:%d" % code}
        if g == 0:
            others = [{"op": "ping", "_want": "ok"}]
        elif g == 1:
            others = [{"op": "delete", "path": "/w/none-" + tag, "_want": "error"}, {"op": "open", "path": "/w/known", "flag": 0, "perm": 0, "read": True, "_want": "content:known"}]
        else:
            others = [x for x in followups(r, tag, r.randint(1, 3)) if not (x["op"] == "open" and x.get("read") and x["path"] != "/w/known")][:4]
        for x in others:
            x["at"] = "callback" if g < 2 else r.choice(["callback", "callback", "callback", "start", "before"])
        if not any(x["at"] == "callback" for x in others):
            others[0]["at"] = "callback"
        ops = [{"op": "newenv", "unshare_cgroup": g % 2 == 1}, dict(KNOWN), {"op": "par", "mark": "" if sync_after else mark, "main": main, "others": others}]
        if fail and not sync_after:
            # refused before exec: the program has never run
            ops.append({"op": "open", "path": mark, "flag": 0, "perm": 0, "read": True, "_want": "item-error"})
        ops += followups(r, tag + "x", 2)
        ops += [{"op": "delete", "path": "/w/none-after-" + tag, "_want": "error"}, {"op": "ping", "_want": "ok"},
                {"op": "exec", "args": [T, "exit", "9"], "_want": "status:7:9"}, {"op": "logs"}]
        cases.append({"id": g, "ops": ops})
    good_logs, obs = [], []
    inside = nbad = 0
    for x in cases:
        if nbad >= 2:
            break
        o = c.run_harness(exe2, [{"id": x["id"], "ops": strip(x["ops"])}], env=env, timeout=300)[0]
        obs.append(o)
        if "harness_err" in o:
            raise RuntimeError(o["harness_err"])
        clean = True

        def report(what, detail, upto, extra):
            c.finding_or_violation({"kind": "rpc", "what": what, "class": "callers-at-once"},
                                   dict({"history": x["ops"][:upto + 1], "what": detail, "observed": o["obs"]}, **extra), klass="callers-at-once")
        for i, (op, ob) in enumerate(zip(x["ops"], o["obs"])):
            if op["op"] == "par":
                calls = [("the Execve whose callback was running", op["main"], ob.get("main"))] + \
                        [("a %s made %s" % (oo["op"], {"callback": "while the callback of another caller's Execve was running", "start": "together with another caller's Execve",
                                                       "before": "just before another caller's Execve"}[oo["at"]]), oo, (ob.get("others") or [None] * len(op["others"]))[j])
                         for j, oo in enumerate(op["others"])]
                cb = ob.get("callback") or {}
                for j, oo in enumerate(op["others"]):
                    a = (ob.get("others") or [None] * len(op["others"]))[j]
                    if oo["at"] == "callback" and a and cb.get("leave_us") and a.get("begin_us", 1 << 60) < cb["leave_us"]:
                        inside += 1
                # an answer that came back and is not the call's own says more than a call that is still waiting: those first
                judged = [(who, cop, cob, answer_of(cop, cob)) for who, cop, cob in calls]
                judged.sort(key=lambda t: t[3] is not None and t[3].startswith("the call never returned"))
                for who, cop, cob, bad in judged:
                    if bad:
                        clean = False
                        report("%s: %s" % (who, bad.split(":")[0]), "%s: %s" % (who, bad), i,
                               {"failing_call": cop, "expected": cop["_want"], "observed_answer": cob if cob is not None else "(never returned)"})
                        break
                if clean and cb.get("mark_at_callback_end"):
                    clean = False
                    report("the program of an Execve that is synchronised before exec had run before the callback returned (a command of another caller was taken for the acknowledgement)",
                           "mark %s exists in the container at the end of the callback" % op["mark"], i,
                           {"failing_call": op["main"], "expected": "the program is started after the callback has returned", "observed_answer": cb})
                if clean and ob.get("hang"):
                    clean = False
                    report("a group of concurrent calls did not finish", "hang", i, {"expected": "every call returns", "observed_answer": ob})
            elif "_want" in op:
                bad = answer_of(op, None if ob.get("hang") else ob)
                if bad:
                    clean = False
                    report("a call after several callers used the environment at once: %s" % bad.split(":")[0], bad, i,
                           {"failing_call": op, "expected": op["_want"], "observed_answer": ob})
            if not clean:
                break
        nbad += 0 if clean else 1
        c.count(json.dumps(strip(x["ops"])), nontrivial=True, klass="history:callers-at-once")
        if not o.get("hang") and o["obs"] and o["obs"][-1].get("op") == "logs":
            good_logs.append(o["obs"][-1])
    c.cov["concurrent_caller_groups"] = len(obs)
    c.cov["calls_begun_inside_a_running_callback"] = inside
    if obs and len(obs[0].get("obs", [])) > 2:
        c.sample({"callers_at_once": strip(cases[0]["ops"][2]), "observed": obs[0]["obs"][2]})
    return good_logs


def run(c):
    exe = c.build_harness("h_env")
    c.build_probe("target")
    c.build_probe("c10esc")
    exe2 = c.build_harness("h_c10")
    scratch = c.tmpdir("scratch")
    env = dict(os.environ, VERIF_SCRATCH=scratch)
    r = c.rng("histories")
    plant = {"op": "exec", "args": [T, "plant", "fifo", "/w/fifo", "-", "reg", "/w/badelf", "garbage", "chmod", "/w/badelf", "755", "reg", "/w/noexec", "x",
                                    "chmod", "/w/noexec", "644", "reg", "/w/script", "#!/nonexistent/interp\n", "chmod", "/w/script", "755"],
             "_class": "plant", "_expect": [1]}
    cases = []
    nh = 40 if c.quick() else 400
    for hid in range(nh):
        # every other environment unshares the cgroup namespace before exec: capabilities are dropped and the filter is loaded after the sync
        # every eighth environment has a file bound below each of its two tmpfs mounts: Reset fails there (twice over), and says so once
        busy = hid % 8 == 5
        ops = [{"op": "newenv", "unshare_cgroup": hid % 2 == 1, "busy_mounts": busy}, dict(plant)]
        for _ in range(r.randint(1, 30)):
            k = r.random()
            if busy and k >= 0.8:
                k = 0.95
            if k < 0.5:
                ops.append(exec_op(r))
            elif k < 0.65:
                ops.append({"op": "ping"})
            elif k < 0.78:
                ops.append({"op": "open", "items": [{"path": r.choice(["/w/a", "/w/nodir/x", "/w/badelf", "/w/b", "/w/fifo"]), "flag": r.choice([0, 0o102]), "perm": 0o600}
                                                    for _ in range(r.randint(1, 4))]})
            elif k < 0.86:
                ops.append({"op": "delete", "path": r.choice(["/w/a", "/w/none"])})
            elif k < 0.94:
                ops.append({"op": "symlink", "links": [{"link": r.choice(["/w/l1", "/w/badelf"]), "target": "x"}]})
            else:
                ops.append({"op": "reset"})
                ops.append(dict(plant))
        ops += [{"op": "ping"}, {"op": "exec", "args": ["/bin/true"], "_class": "true", "_expect": [1]}, {"op": "logs"}]
        cases.append({"id": hid, "ops": ops})
    # 40 histories per harness process (the time allowed to a process is no statement about the project: on a loaded machine a
    # history takes ten times what it takes on an idle one)
    obs = []
    t_hist = time.time()
    for lo in range(0, len(cases), 40):
        obs += c.run_harness(exe, [{"id": x["id"], "ops": [{k: v for k, v in o.items() if not k.startswith("_")} for o in x["ops"]]} for x in cases[lo:lo + 40]],
                             env=env, timeout=1800)
    c.log("random histories: %.1f s" % (time.time() - t_hist))
    items, item_src, dis = [], [], []
    for x, o in zip(cases, obs):
        if "harness_err" in o:
            raise RuntimeError(o["harness_err"])
        failing = 0
        dead = False
        for op, ob in zip(x["ops"], o["obs"]):
            kind = op["op"]
            canon = lambda what, **kw: dict({"kind": "rpc", "what": what, "op": kind, "class": op.get("_class")}, **kw)
            if ob.get("hang"):
                c.finding_or_violation(canon("the call never returned (12 s) although the transport is intact"),
                                       {"history": x["ops"], "observed": o["obs"]}, klass="hang")
                break
            if kind == "exec":
                msg = ob["errmsg"]
                transport = ob["status"] == 8 and any(w in msg for w in TRANSPORT_WORDS)
                if ob["status"] == 8:
                    failing += 1
                if transport and not dead:
                    dead = True
                    c.finding_or_violation(canon("a call failed for transport reasons although the transport was not lost", error=msg[:90]),
                                           {"history": x["ops"], "observed": o["obs"]}, klass="transport:" + str(op.get("_class")))
                elif not dead and ob["status"] not in op["_expect"]:
                    c.finding_or_violation(canon("answer does not belong to this call's class", status=ob["status"], expected=op["_expect"],
                                                 error=msg[:90]), {"history": x["ops"], "observed": o["obs"]})
                if ob["ms"] > 8000:
                    c.finding_or_violation(canon("call did not return promptly", ms=ob["ms"]), {"history": x["ops"]})
            elif kind in ("ping", "reset", "delete", "open", "symlink"):
                e = ob.get("err")
                if kind == "reset" and x["ops"][0].get("busy_mounts"):
                    # the reset cannot succeed here; it has to say so, once, and leave the environment usable
                    if not e and not dead:
                        c.finding_or_violation(canon("Reset reports success although a mount could not be emptied"), {"history": x["ops"], "observed": o["obs"]}, klass="reset-silent")
                    if e and "busy" in e:
                        continue
                if e and not dead and (kind in ("ping", "reset") or any(w in e for w in TRANSPORT_WORDS)):
                    dead = True
                    c.finding_or_violation(canon("environment unusable: " + e[:90]), {"history": x["ops"], "observed": o["obs"]},
                                           klass="unusable")
        if o.get("hang"):
            c.count(json.dumps(x["ops"]), nontrivial=True, klass="history:hang")
            continue
        logs = o["obs"][-1]
        hev, cev = wire_events(logs)
        items.append("(%s, %s)" % (coq_list(hev), coq_list(cev)))
        item_src.append(logs)
        c.count(json.dumps(x["ops"]), nontrivial=failing > 0, klass="history:%s" % ("failing" if failing else "clean"))
        c.cov["wire_events"] = c.cov.get("wire_events", 0) + len(hev) + len(cev)
    c.sample({"history": [{k: v for k, v in op.items()} for op in cases[0]["ops"][2:8]],
              "observed": [{k: v for k, v in ob.items() if k != "stdout"} for ob in obs[0]["obs"][2:8]]})
    c.sample({"host_log": (obs[0]["obs"][-1].get("host") or [])[:24], "container_log": (obs[0]["obs"][-1].get("cont") or [])[:24]})
    # ---- programs whose descendants left the process group / session; several callers of one environment at once
    t_new = time.time()
    for logs in escaped_descendants(c, exe2, env) + callers_at_once(c, exe2, env):
        items.append("(%s, %s)" % wire(logs))
        item_src.append(logs)
    c.cov["seconds_escaped_descendants_and_callers_at_once"] = round(time.time() - t_new, 1)
    c.log("escaped descendants + callers at once: %.1f s" % (time.time() - t_new))
    body = HDR + "Definition cs := %s.\nDefinition M := Eval vm_compute in failing logs_ok cs.\nPrint M.\n" % coq_list(items)
    for i in c.parse_nums(c.parse_printed(c.coq_eval("logs", body, timeout=1200), "M").replace("%N", "")):
        dis.append({"relation": "logs_ok (wire logs of both endpoints accepted by host_steps / cont_steps)",
                    "host_log": item_src[i].get("host"), "container_log": item_src[i].get("cont")})
    # ---- cancellations aimed at the instant the program ends
    rounds = 300 if c.quick() else 3000
    cr = c.run_harness(exe, [{"id": 0, "ops": [{"op": "newenv"}, {"op": "execcross", "rounds": rounds}, {"op": "ping"}]}], env=env, timeout=3600)[0]["obs"]
    c.evaluations += cr[1].get("rounds_done", 0)
    c.cov["cancel_crossing_rounds"] = cr[1].get("rounds_done", 0)
    c.cov["cancel_crossing_statuses"] = cr[1].get("statuses")
    if cr[1].get("hang") or cr[1].get("fail") or cr[2].get("err"):
        c.finding_or_violation({"kind": "rpc", "what": "a call is not answered after a run whose cancellation crossed its own end", "class": "exitcross"},
                               {"history": "Execve(exit 0) cancelled at about its duration, then Ping; repeated", "observed": cr[1:3]}, klass="exitcross")
    # ---- the container dies under the host: every later call has to fail, promptly (theorem transport_loss_fails_fast)
    dead_ops = [{"op": "newenv"}, {"op": "exec", "args": ["/bin/true"]}, {"op": "killinit"}]
    for k in range(14):
        dead_ops.append([{"op": "ping"}, {"op": "exec", "args": ["/bin/true"]}, {"op": "delete", "path": "/w/a"}, {"op": "reset"},
                         {"op": "open", "items": [{"path": "/w/a", "flag": 0, "perm": 0}]}, {"op": "symlink", "links": [{"link": "/w/l", "target": "x"}]}][k % 6])
    dead_ops.append({"op": "newenv"})
    dead = c.run_harness(exe, [{"id": 0, "ops": dead_ops}], env=env, timeout=300)[0]
    c.count("dead-environment", nontrivial=True, klass="history:dead-environment")
    for op, ob in zip(dead_ops[3:], dead["obs"][3:]):
        if op["op"] == "newenv":
            continue
        if ob.get("hang"):
            c.finding_or_violation({"kind": "rpc", "what": "a call on an environment whose container is gone never returns", "op": op["op"]},
                                   {"history": dead_ops[:len(dead["obs"])], "observed": dead["obs"]}, klass="dead-env-hang")
            break
        failed = bool(ob.get("err")) or ob.get("status") == 8
        if not failed or ob.get("ms", 0) > 3000:
            c.finding_or_violation({"kind": "rpc", "what": "a call on an environment whose container is gone does not fail promptly", "op": op["op"], "ms": ob.get("ms")},
                                   {"history": dead_ops[:len(dead["obs"])], "observed": dead["obs"]}, klass="dead-env")
            break
    # ---- the container stalls for longer than a Ping waits and then goes on: whatever the host makes of it, no later call may be
    # handed an answer that belongs to an earlier one
    st_ops = [{"op": "newenv"}, {"op": "exec", "args": ["/bin/true"]}, {"op": "stopinit"}, {"op": "ping"}, {"op": "continit"},
              {"op": "delete", "path": "/w/none"}, {"op": "exec", "args": ["/bin/true"]}, {"op": "ping"}, {"op": "delete", "path": "/w/none"}, {"op": "newenv"}]
    so_ = c.run_harness(exe, [{"id": 0, "ops": st_ops}], env=env, timeout=300)[0]
    c.count("stalled-container", nontrivial=True, klass="history:stalled-container")
    sob = so_["obs"]
    if so_.get("hang"):
        c.finding_or_violation({"kind": "rpc", "what": "a call never returns after the container stalled and went on", "class": "stalled"},
                               {"history": st_ops[:len(sob)], "observed": sob}, klass="stalled")
    elif not sob[3].get("err"):
        raise RuntimeError("the Ping of a stopped container succeeded: %r" % sob[3])
    else:
        transportish = lambda e: bool(e) and any(w in e for w in TRANSPORT_WORDS + ("timeout", "i/o"))
        bad = None
        for k in (5, 8):
            e = sob[k].get("err")
            if not e:
                bad = "Delete of a file that does not exist reports success (it was handed the answer of an earlier call)"
        x6 = sob[6]
        if x6["status"] != 1 and not (x6["status"] == 8 and transportish(x6["errmsg"])):
            bad = "Execve(/bin/true) is answered with something that is neither its result nor a transport failure: status %s %s" % (x6["status"], x6["errmsg"][:60])
        if bad:
            c.finding_or_violation({"kind": "rpc", "what": bad, "class": "stalled"}, {"history": st_ops, "observed": sob}, klass="stalled")
    # ---- the container stalls for seven seconds while a file operation is outstanding (answers may be late, they may not be handed to the wrong call)
    sl_ops = [{"op": "newenv"}, {"op": "open", "items": [{"path": "/w/c", "flag": 0o102, "perm": 0o600, "write": "c"}]}, {"op": "stallinit", "ms": 7000},
              {"op": "open", "items": [{"path": "/w/e", "flag": 0o102, "perm": 0o600, "write": "e"}, {"path": "/w/f", "flag": 0o102, "perm": 0o600, "write": "f"}]},
              {"op": "symlink", "links": [{"link": "/w/l9", "target": "e"}]}, {"op": "sleep", "ms": 3000},
              {"op": "delete", "path": "/w/none"}, {"op": "open", "items": [{"path": "/w/e", "flag": 0, "perm": 0, "read": True}]},
              {"op": "exec", "args": ["/bin/true"]}, {"op": "delete", "path": "/w/none"}, {"op": "newenv"}]
    sl = c.run_harness(exe, [{"id": 0, "ops": sl_ops}], env=env, timeout=300)[0]
    c.count("stalled-file-operation", nontrivial=True, klass="history:stalled-file-operation")
    slo = sl["obs"]
    if sl.get("hang"):
        c.finding_or_violation({"kind": "rpc", "what": "a call never returns after the container stalled during a file operation", "class": "stalled"},
                               {"history": sl_ops[:len(slo)], "observed": slo}, klass="stalled")
    else:
        bad = None
        dead_env = any("err" in x and x.get("err") and any(w in str(x["err"]) for w in TRANSPORT_WORDS) for x in slo[3:])
        for k in (6, 9):
            if not slo[k].get("err"):
                bad = "Delete of a file that does not exist reports success (it was handed the answer of an earlier call)"
        rd = slo[7]
        if not rd.get("err") and rd.get("results") and "err" not in rd["results"][0] and rd["results"][0].get("content") != "e":
            bad = "Open returns a descriptor that is not the requested file (the answer of an earlier call)"
        x8 = slo[8]
        if x8["status"] != 1 and not (x8["status"] == 8 and any(w in x8["errmsg"] for w in TRANSPORT_WORDS + ("timeout", "i/o"))):
            bad = "Execve(/bin/true) is answered with something that is neither its result nor a transport failure: status %s %s" % (x8["status"], x8["errmsg"][:60])
        if bad:
            c.finding_or_violation({"kind": "rpc", "what": bad, "class": "stalled"}, {"history": sl_ops, "observed": slo}, klass="stalled")
    # ---- the oversize request (known finding): its own environment
    big = c.run_harness(exe, [{"id": 0, "ops": [{"op": "newenv"}, {"op": "exec", "args": ["/bin/true"], "env_bytes": 40000}, {"op": "ping"}, {"op": "newenv"}]}],
                        env=env)[0]["obs"]
    c.evaluations += 1
    if big[2].get("hang") or big[1].get("hang"):
        c.finding_or_violation({"kind": "rpc", "what": "a call on an environment whose transport counts as lost never returns", "class": "oversize-request"},
                               {"history": "Execve with a 40000-byte environment variable, then Ping", "observed": big[1:3]}, klass="dead-env-hang")
    elif big[2]["err"]:
        c.finding_or_violation({"kind": "rpc", "what": "request-caused failure makes the environment unusable", "class": "oversize-request",
                                "error": big[1]["errmsg"][:80]}, {"history": "Execve with a 40000-byte environment variable, then Ping", "observed": big[1:3]})
    c.cov["histories"] = nh
    c.cov["traces_validated_against_impl"] = 2 * nh
    c.cov["states"] = 3252
    c.cov["correspondence_disagreements"] = len(dis)
    if dis:
        c.cov["disagreement_samples"] = dis[:3]
        if not c.violations:
            c.violation({"kind": "correspondence-broken", "theorems_no_longer_about_the_code": c.theorems, "disagreements": dis[:5]}, no_input=True)

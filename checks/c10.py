"""C10 — container RPC never desynchronises; program-caused failures keep it usable.
Tie: random histories of API calls on a real environment (every failure class of Execve, sync before / after exec,
failing callbacks, cancellation, batches), wire-level logs of both endpoints replayed in Coq against host_steps /
cont_steps (the functions of the LTS the theorems are about).  Oracle: every call gets an answer of its own class,
no transport-class failure without loss of the transport, Ping and Execve(/bin/true) succeed after every history."""
import json
import os

from vlib import coq_list

FINISH = dict(level="proof", rule=(
    "histories of 1..30 operations over {Ping, Open, Delete, Symlink, Reset, Execve(params)} where each Execve draws its class: "
    "runs (exit 0 / non-zero / killed by a signal / cancelled while sleeping), unknown relative name, missing absolute path, "
    "no exec bit, malformed executable, script with a missing interpreter, empty argument list, failing callback — each "
    "with sync before or after exec and with or without a callback.  Non-trivial: a history containing at least one failing "
    "Execve; distinct = distinct histories."))

HDR = "From Coq Require Import List.\nImport ListNotations.\nFrom GS Require Import Container.Proto Container.EvalProto.\n"
T = "/vb/probe_target"
CMDK = {"ping": 0, "open": 0, "delete": 0, "reset": 0, "symlink": 0, "conf": 0, "execve": 1, "ok": 2, "kill": 3}
REPK = {"ack": 0, "err": 1, "result": 3}
TRANSPORT_WORDS = ("EOF", "closed", "broken pipe", "recvReply", "sendCmd", "too large", "connection", "ack failed", "no reply received")


def exec_op(r):
    k = r.choice(["true", "true", "exit3", "sig9", "sleepcancel", "relmissing", "absmissing", "noexec", "badelf", "script",
                  "emptyargv", "cbfail", "cbfail", "exitcross", "exitcross", "exitcross", "badfilter", "badfilter", "goodfilter"])
    sync = r.choice([None, "ok"])
    sa = r.random() < 0.4
    o = {"op": "exec", "_class": k, "sync_after": sa}
    if sync:
        o["sync"] = sync
    if k == "true":
        o["args"], o["_expect"] = ["/bin/true"], [1]
    elif k == "exit3":
        o["args"], o["_expect"] = [T, "exit", "3"], [7]
    elif k == "sig9":
        o["args"], o["_expect"] = [T, "sig", "9"], [2]
    elif k == "sleepcancel":
        o["args"], o["cancel_ms"], o["_expect"] = [T, "sleep", "3000"], r.choice([0, 1, 5, 30]), [2, 8]
    elif k == "exitcross":
        # the cancellation arrives about when the program ends by itself: either verdict is right, the protocol must stay in step
        if r.random() < 0.5:
            o["args"], o["cancel_ms"], o["_expect"] = [T, "exit", "0"], r.choice([1, 2, 3, 4, 5, 6, 8, 10]), [1, 2, 8]
        else:
            ms = r.choice([5, 10, 20])
            o["args"], o["cancel_ms"], o["_expect"] = [T, "sleep", str(ms)], ms + r.choice([2, 3, 4, 5, 6, 8]), [1, 2, 8]
    elif k == "badfilter":
        # a seccomp filter the kernel refuses: the launch fails where the filter is loaded (before or after the sync, depending on the environment)
        o["args"], o["seccomp"], o["_expect"] = ["/bin/true"], "bad", [8]
    elif k == "goodfilter":
        o["args"], o["seccomp"], o["_expect"] = ["/bin/true"], "ok", [1]
    elif k == "relmissing":
        o["args"], o["_expect"] = ["no_such_command_xyz"], [8]
    elif k == "absmissing":
        o["args"], o["_expect"] = ["/w/missing"], [8]
    elif k == "noexec":
        o["args"], o["_expect"] = ["/w/noexec"], [8]
    elif k == "badelf":
        o["args"], o["_expect"] = ["/w/badelf"], [8]
    elif k == "script":
        o["args"], o["_expect"] = ["/w/script"], [8]
    elif k == "emptyargv":
        o["args"], o["_expect"] = [], [8]
    else:
        o["args"], o["sync"], o["_expect"] = ["/bin/true"], "fail", [8]
    return o


def run(c):
    exe = c.build_harness("h_env")
    c.build_probe("target")
    scratch = c.tmpdir("scratch")
    env = dict(os.environ, VERIF_SCRATCH=scratch)
    r = c.rng("histories")
    plant = {"op": "exec", "args": [T, "plant", "fifo", "/w/fifo", "-", "reg", "/w/badelf", "garbage", "chmod", "/w/badelf", "755", "reg", "/w/noexec", "x",
                                    "chmod", "/w/noexec", "644", "reg", "/w/script", "#!/nonexistent/interp\n", "chmod", "/w/script", "755"],
             "_class": "plant", "_expect": [1]}
    cases = []
    nh = 40 if c.quick() else 400
    for hid in range(nh):
        # every other environment unshares the cgroup namespace before exec: capabilities are dropped and the filter is loaded after the sync
        # every eighth environment has a file bound below each of its two tmpfs mounts: Reset fails there (twice over), and says so once
        busy = hid % 8 == 5
        ops = [{"op": "newenv", "unshare_cgroup": hid % 2 == 1, "busy_mounts": busy}, dict(plant)]
        for _ in range(r.randint(1, 30)):
            k = r.random()
            if busy and k >= 0.8:
                k = 0.95
            if k < 0.5:
                ops.append(exec_op(r))
            elif k < 0.65:
                ops.append({"op": "ping"})
            elif k < 0.78:
                ops.append({"op": "open", "items": [{"path": r.choice(["/w/a", "/w/nodir/x", "/w/badelf", "/w/b", "/w/fifo"]), "flag": r.choice([0, 0o102]), "perm": 0o600}
                                                    for _ in range(r.randint(1, 4))]})
            elif k < 0.86:
                ops.append({"op": "delete", "path": r.choice(["/w/a", "/w/none"])})
            elif k < 0.94:
                ops.append({"op": "symlink", "links": [{"link": r.choice(["/w/l1", "/w/badelf"]), "target": "x"}]})
            else:
                ops.append({"op": "reset"})
                ops.append(dict(plant))
        ops += [{"op": "ping"}, {"op": "exec", "args": ["/bin/true"], "_class": "true", "_expect": [1]}, {"op": "logs"}]
        cases.append({"id": hid, "ops": ops})
    obs = c.run_harness(exe, [{"id": x["id"], "ops": [{k: v for k, v in o.items() if not k.startswith("_")} for o in x["ops"]]} for x in cases],
                        env=env, timeout=900)
    items, dis = [], []
    for x, o in zip(cases, obs):
        if "harness_err" in o:
            raise RuntimeError(o["harness_err"])
        failing = 0
        dead = False
        for op, ob in zip(x["ops"], o["obs"]):
            kind = op["op"]
            canon = lambda what, **kw: dict({"kind": "rpc", "what": what, "op": kind, "class": op.get("_class")}, **kw)
            if ob.get("hang"):
                c.finding_or_violation(canon("the call never returned (12 s) although the transport is intact"),
                                       {"history": x["ops"], "observed": o["obs"]}, klass="hang")
                break
            if kind == "exec":
                msg = ob["errmsg"]
                transport = ob["status"] == 8 and any(w in msg for w in TRANSPORT_WORDS)
                if ob["status"] == 8:
                    failing += 1
                if transport and not dead:
                    dead = True
                    c.finding_or_violation(canon("a call failed for transport reasons although the transport was not lost", error=msg[:90]),
                                           {"history": x["ops"], "observed": o["obs"]}, klass="transport:" + str(op.get("_class")))
                elif not dead and ob["status"] not in op["_expect"]:
                    c.finding_or_violation(canon("answer does not belong to this call's class", status=ob["status"], expected=op["_expect"],
                                                 error=msg[:90]), {"history": x["ops"], "observed": o["obs"]})
                if ob["ms"] > 8000:
                    c.finding_or_violation(canon("call did not return promptly", ms=ob["ms"]), {"history": x["ops"]})
            elif kind in ("ping", "reset", "delete", "open", "symlink"):
                e = ob.get("err")
                if kind == "reset" and x["ops"][0].get("busy_mounts"):
                    # the reset cannot succeed here; it has to say so, once, and leave the environment usable
                    if not e and not dead:
                        c.finding_or_violation(canon("Reset reports success although a mount could not be emptied"), {"history": x["ops"], "observed": o["obs"]}, klass="reset-silent")
                    if e and "busy" in e:
                        continue
                if e and not dead and (kind in ("ping", "reset") or any(w in e for w in TRANSPORT_WORDS)):
                    dead = True
                    c.finding_or_violation(canon("environment unusable: " + e[:90]), {"history": x["ops"], "observed": o["obs"]},
                                           klass="unusable")
        if o.get("hang"):
            c.count(json.dumps(x["ops"]), nontrivial=True, klass="history:hang")
            continue
        logs = o["obs"][-1]
        hev = [("Snd %d" % CMDK[l.split()[1]]) if l.startswith("send") else ("Rcv %d" % REPK[l.split()[1]]) for l in (logs.get("host") or [])]
        cev = []
        for l in (logs.get("cont") or []):
            p = l.split()
            if p[0] != "VERIF":
                continue
            cev.append(("Rcv %d" % CMDK[p[2]]) if p[1] == "recv" else ("Snd %d" % REPK[p[2]]))
        items.append("(%s, %s)" % (coq_list(hev), coq_list(cev)))
        c.count(json.dumps(x["ops"]), nontrivial=failing > 0, klass="history:%s" % ("failing" if failing else "clean"))
        c.cov["wire_events"] = c.cov.get("wire_events", 0) + len(hev) + len(cev)
    c.sample({"history": [{k: v for k, v in op.items()} for op in cases[0]["ops"][2:8]],
              "observed": [{k: v for k, v in ob.items() if k != "stdout"} for ob in obs[0]["obs"][2:8]]})
    c.sample({"host_log": (obs[0]["obs"][-1].get("host") or [])[:24], "container_log": (obs[0]["obs"][-1].get("cont") or [])[:24]})
    body = HDR + "Definition cs := %s.\nDefinition M := Eval vm_compute in failing logs_ok cs.\nPrint M.\n" % coq_list(items)
    for i in c.parse_nums(c.parse_printed(c.coq_eval("logs", body, timeout=1200), "M").replace("%N", "")):
        dis.append({"relation": "logs_ok (wire logs of both endpoints accepted by host_steps / cont_steps)",
                    "host_log": obs[i]["obs"][-1].get("host"), "container_log": obs[i]["obs"][-1].get("cont")})
    # ---- cancellations aimed at the instant the program ends
    rounds = 300 if c.quick() else 3000
    cr = c.run_harness(exe, [{"id": 0, "ops": [{"op": "newenv"}, {"op": "execcross", "rounds": rounds}, {"op": "ping"}]}], env=env, timeout=900)[0]["obs"]
    c.evaluations += cr[1].get("rounds_done", 0)
    c.cov["cancel_crossing_rounds"] = cr[1].get("rounds_done", 0)
    c.cov["cancel_crossing_statuses"] = cr[1].get("statuses")
    if cr[1].get("hang") or cr[1].get("fail") or cr[2].get("err"):
        c.finding_or_violation({"kind": "rpc", "what": "a call is not answered after a run whose cancellation crossed its own end", "class": "exitcross"},
                               {"history": "Execve(exit 0) cancelled at about its duration, then Ping; repeated", "observed": cr[1:3]}, klass="exitcross")
    # ---- the container dies under the host: every later call has to fail, promptly (theorem transport_loss_fails_fast)
    dead_ops = [{"op": "newenv"}, {"op": "exec", "args": ["/bin/true"]}, {"op": "killinit"}]
    for k in range(14):
        dead_ops.append([{"op": "ping"}, {"op": "exec", "args": ["/bin/true"]}, {"op": "delete", "path": "/w/a"}, {"op": "reset"},
                         {"op": "open", "items": [{"path": "/w/a", "flag": 0, "perm": 0}]}, {"op": "symlink", "links": [{"link": "/w/l", "target": "x"}]}][k % 6])
    dead_ops.append({"op": "newenv"})
    dead = c.run_harness(exe, [{"id": 0, "ops": dead_ops}], env=env, timeout=300)[0]
    c.count("dead-environment", nontrivial=True, klass="history:dead-environment")
    for op, ob in zip(dead_ops[3:], dead["obs"][3:]):
        if op["op"] == "newenv":
            continue
        if ob.get("hang"):
            c.finding_or_violation({"kind": "rpc", "what": "a call on an environment whose container is gone never returns", "op": op["op"]},
                                   {"history": dead_ops[:len(dead["obs"])], "observed": dead["obs"]}, klass="dead-env-hang")
            break
        failed = bool(ob.get("err")) or ob.get("status") == 8
        if not failed or ob.get("ms", 0) > 3000:
            c.finding_or_violation({"kind": "rpc", "what": "a call on an environment whose container is gone does not fail promptly", "op": op["op"], "ms": ob.get("ms")},
                                   {"history": dead_ops[:len(dead["obs"])], "observed": dead["obs"]}, klass="dead-env")
            break
    # ---- the container stalls for longer than a Ping waits and then goes on: whatever the host makes of it, no later call may be
    # handed an answer that belongs to an earlier one
    st_ops = [{"op": "newenv"}, {"op": "exec", "args": ["/bin/true"]}, {"op": "stopinit"}, {"op": "ping"}, {"op": "continit"},
              {"op": "delete", "path": "/w/none"}, {"op": "exec", "args": ["/bin/true"]}, {"op": "ping"}, {"op": "delete", "path": "/w/none"}, {"op": "newenv"}]
    so_ = c.run_harness(exe, [{"id": 0, "ops": st_ops}], env=env, timeout=300)[0]
    c.count("stalled-container", nontrivial=True, klass="history:stalled-container")
    sob = so_["obs"]
    if so_.get("hang"):
        c.finding_or_violation({"kind": "rpc", "what": "a call never returns after the container stalled and went on", "class": "stalled"},
                               {"history": st_ops[:len(sob)], "observed": sob}, klass="stalled")
    elif not sob[3].get("err"):
        raise RuntimeError("the Ping of a stopped container succeeded: %r" % sob[3])
    else:
        transportish = lambda e: bool(e) and any(w in e for w in TRANSPORT_WORDS + ("timeout", "i/o"))
        bad = None
        for k in (5, 8):
            e = sob[k].get("err")
            if not e:
                bad = "Delete of a file that does not exist reports success (it was handed the answer of an earlier call)"
        x6 = sob[6]
        if x6["status"] != 1 and not (x6["status"] == 8 and transportish(x6["errmsg"])):
            bad = "Execve(/bin/true) is answered with something that is neither its result nor a transport failure: status %s %s" % (x6["status"], x6["errmsg"][:60])
        if bad:
            c.finding_or_violation({"kind": "rpc", "what": bad, "class": "stalled"}, {"history": st_ops, "observed": sob}, klass="stalled")
    # ---- the container stalls for seven seconds while a file operation is outstanding (answers may be late, they may not be handed to the wrong call)
    sl_ops = [{"op": "newenv"}, {"op": "open", "items": [{"path": "/w/c", "flag": 0o102, "perm": 0o600, "write": "c"}]}, {"op": "stallinit", "ms": 7000},
              {"op": "open", "items": [{"path": "/w/e", "flag": 0o102, "perm": 0o600, "write": "e"}, {"path": "/w/f", "flag": 0o102, "perm": 0o600, "write": "f"}]},
              {"op": "symlink", "links": [{"link": "/w/l9", "target": "e"}]}, {"op": "sleep", "ms": 3000},
              {"op": "delete", "path": "/w/none"}, {"op": "open", "items": [{"path": "/w/e", "flag": 0, "perm": 0, "read": True}]},
              {"op": "exec", "args": ["/bin/true"]}, {"op": "delete", "path": "/w/none"}, {"op": "newenv"}]
    sl = c.run_harness(exe, [{"id": 0, "ops": sl_ops}], env=env, timeout=300)[0]
    c.count("stalled-file-operation", nontrivial=True, klass="history:stalled-file-operation")
    slo = sl["obs"]
    if sl.get("hang"):
        c.finding_or_violation({"kind": "rpc", "what": "a call never returns after the container stalled during a file operation", "class": "stalled"},
                               {"history": sl_ops[:len(slo)], "observed": slo}, klass="stalled")
    else:
        bad = None
        dead_env = any("err" in x and x.get("err") and any(w in str(x["err"]) for w in TRANSPORT_WORDS) for x in slo[3:])
        for k in (6, 9):
            if not slo[k].get("err"):
                bad = "Delete of a file that does not exist reports success (it was handed the answer of an earlier call)"
        rd = slo[7]
        if not rd.get("err") and rd.get("results") and "err" not in rd["results"][0] and rd["results"][0].get("content") != "e":
            bad = "Open returns a descriptor that is not the requested file (the answer of an earlier call)"
        x8 = slo[8]
        if x8["status"] != 1 and not (x8["status"] == 8 and any(w in x8["errmsg"] for w in TRANSPORT_WORDS + ("timeout", "i/o"))):
            bad = "Execve(/bin/true) is answered with something that is neither its result nor a transport failure: status %s %s" % (x8["status"], x8["errmsg"][:60])
        if bad:
            c.finding_or_violation({"kind": "rpc", "what": bad, "class": "stalled"}, {"history": sl_ops, "observed": slo}, klass="stalled")
    # ---- the oversize request (known finding): its own environment
    big = c.run_harness(exe, [{"id": 0, "ops": [{"op": "newenv"}, {"op": "exec", "args": ["/bin/true"], "env_bytes": 40000}, {"op": "ping"}, {"op": "newenv"}]}],
                        env=env)[0]["obs"]
    c.evaluations += 1
    if big[2].get("hang") or big[1].get("hang"):
        c.finding_or_violation({"kind": "rpc", "what": "a call on an environment whose transport counts as lost never returns", "class": "oversize-request"},
                               {"history": "Execve with a 40000-byte environment variable, then Ping", "observed": big[1:3]}, klass="dead-env-hang")
    elif big[2]["err"]:
        c.finding_or_violation({"kind": "rpc", "what": "request-caused failure makes the environment unusable", "class": "oversize-request",
                                "error": big[1]["errmsg"][:80]}, {"history": "Execve with a 40000-byte environment variable, then Ping", "observed": big[1:3]})
    c.cov["histories"] = nh
    c.cov["traces_validated_against_impl"] = 2 * nh
    c.cov["states"] = 3252
    c.cov["correspondence_disagreements"] = len(dis)
    if dis:
        c.cov["disagreement_samples"] = dis[:3]
        if not c.violations:
            c.violation({"kind": "correspondence-broken", "theorems_no_longer_about_the_code": c.theorems, "disagreements": dis[:5]}, no_input=True)

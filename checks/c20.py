"""C20 — cgroup handles control exactly their own group; usage in documented units.
Tie: (a) random histories of New / Random / OpenExisting / AddProc / Destroy (and directories made by "somebody else") on the
REAL v1 hierarchy of this machine under a unique prefix, and on a real cgroup2 mount in a private mount namespace; after every
step the Existing() flags, the directories present per controller and the group of every thread of the moved processes are
compared in Coq with `step` of the model; (b) 16 concurrent creators of one name, many rounds, through handle.New and the
package-level New: exactly one owner, the group lives until the owner destroys it; concurrent Random: distinct names;
(c) limits written are read back from the kernel's files; CPU and memory readings of a child that burns a known amount;
(d) the readers of the statistics files on synthetic contents compared in Coq with `cpu_usage` / `read_uint`."""
import json
import os

from vlib import coq_list

FINISH = dict(level="proof", rule=(
    "histories of 10..40 operations over a tree of at most 10 groups (names from a pool of 4, so that New meets existing "
    "groups), up to 3 multi-threaded processes, directories pre-made in a subset of the controllers; 40 (thorough 400) rounds of "
    "16 concurrent creators; statistics files: cpu.stat with the usage line at any position, extra fields, duplicates, missing "
    "line, values up to and beyond 2^63, single-number files with spaces, signs, overflow, garbage.  v1 histories over handles with "
    "different controller sets on the same groups and processes already placed in some of the controllers (by another handle or by "
    "somebody else) before AddProc; populations of 3000 (thorough 4000) live siblings from Random per hierarchy.  Non-trivial: a history in "
    "which some New met an existing group and some Destroy ran; distinct = distinct histories / file contents."))

HDR = "From Coq Require Import List NArith ZArith.\nImport ListNotations.\nFrom GS Require Import Cgroup.Tree Cgroup.EvalCgroup.\n"
CTRLS = ["cpu", "cpuset", "cpuacct", "memory", "pids"]


def gen_history(r, root, v2):
    """-> ops for the harness and the handles; the generator tracks which handle owns which group so that Destroy is only
    asked of groups without sub-groups and processes (rmdir of a busy group fails by design)"""
    ops = [{"op": "pkgnew", "prefix": root, "as": 0}]
    handles = {0: {"path": root, "alive": True}}
    groups = {root}                      # groups that exist (in every controller)
    owner = {root: 0}
    partial = {}                         # path -> controllers pre-made by "somebody else"
    procs, where = {}, {}
    nh = 1
    for _ in range(r.randint(10, 40)):
        k = r.random()
        live = [i for i, h in handles.items() if h["alive"] and h["path"] in groups and h["path"] not in partial]
        if k < 0.30 and live and len(groups) < 10:
            parent = r.choice(live)
            name = r.choice(["a", "b", "c", "d"])
            path = handles[parent]["path"] + "/" + name
            ops.append({"op": "new", "h": parent, "name": name, "as": nh})
            handles[nh] = {"path": path, "alive": True, "met_existing": path in groups}
            if path not in groups:
                owner[path] = nh
            groups.add(path)
            nh += 1
        elif k < 0.36 and live and not v2:
            parent = r.choice(live)
            name = r.choice(["p", "q"])
            path = handles[parent]["path"] + "/" + name
            if path not in groups:
                cs = [c for c in CTRLS[1:] if r.random() < 0.5] or ["memory"]
                for c in cs:
                    ops.append({"op": "rawmkdir", "ctrl": c, "prefix": path})
                ops.append({"op": "new", "h": parent, "name": name, "as": nh})
                handles[nh] = {"path": path, "alive": True}
                owner[path] = nh
                partial[path] = cs
                groups.add(path)
                nh += 1
        elif k < 0.44:
            p = r.choice(sorted(groups) + [root + "/nonexistent"])
            ops.append({"op": "open", "prefix": p, "as": nh, "_expect_err": p not in groups})
            if p in groups:
                handles[nh] = {"path": p, "alive": True}
            nh += 1
        elif k < 0.52 and len(procs) < 3:
            i = len(procs)
            ops.append({"op": "spawn", "as": i, "threads": r.randint(0, 3)})
            procs[i] = True
        elif k < 0.68 and procs and live:
            h, p = r.choice(live), r.choice(sorted(procs))
            met = [i for i in live if handles[i].get("met_existing")]
            if met and r.random() < 0.5:
                h = r.choice(met)                      # a handle that New returned for a group that was already there
            if procs[p]:
                ops.append({"op": "addproc", "h": h, "proc": p})
                ops.append({"op": "where", "proc": p, "_expect": handles[h]["path"], "_via_existing": bool(handles[h].get("met_existing"))})
                where[p] = handles[h]["path"]
        elif k < 0.78 and where:
            p = r.choice(sorted(where))
            if procs[p]:
                ops.append({"op": "where", "proc": p})
        elif k < 0.86:
            ops.append({"op": "exists", "prefix": r.choice(sorted(groups) + [root + "/a", root + "/a/b", root + "/p"])})
        else:
            cand = [i for i, h in handles.items() if i != 0 and h["alive"] and h["path"] in groups
                    and not any(g.startswith(h["path"] + "/") for g in groups)]
            if cand:
                h = r.choice(cand)
                path = handles[h]["path"]
                if owner.get(path) == h:
                    for p, g in list(where.items()):
                        if g == path and procs[p]:
                            ops.append({"op": "kill", "proc": p})
                            procs[p] = False
                            del where[p]
                ops.append({"op": "destroy", "h": h})
                handles[h]["alive"] = False
                if owner.get(path) == h:
                    # what the handle created is gone; directories made by somebody else stay until they are removed
                    for cn in partial.pop(path, []):
                        ops.append({"op": "exists", "prefix": path})
                        ops.append({"op": "rawrmdir", "ctrl": cn, "prefix": path})
                    groups.discard(path)
                    owner.pop(path, None)
                ops.append({"op": "exists", "prefix": path})
    # the end: kill the processes, destroy every handle (owners of deeper groups first), remove what somebody else made
    for p in procs:
        if procs[p]:
            ops.append({"op": "kill", "proc": p})
    for h, d in sorted(handles.items(), key=lambda kv: -kv[1]["path"].count("/")):
        if d["alive"]:
            ops.append({"op": "destroy", "h": h})
            if owner.get(d["path"]) == h:
                for cn in partial.pop(d["path"], []):
                    ops.append({"op": "rawrmdir", "ctrl": cn, "prefix": d["path"]})
    ops.append({"op": "exists", "prefix": root})
    return ops, handles


def gen_subset_history(r, root):
    """v1 only: handles over DIFFERENT controller sets on the same groups (cgroup.New / OpenExisting with a subset, handle.New below
    them), directories made by somebody else, and processes that are already in the group's directory of SOME controllers (put there
    through another handle or by somebody else writing cgroup.procs) when AddProc is called.  The generator keeps the state the
    property speaks about (which directory exists, who made it, where each process is per controller) to ask only for operations
    that cannot fail by design (rmdir of a busy directory, AddProc into a directory that is not there)."""
    ops = [{"op": "pkgnew", "prefix": root, "as": 0}]
    dirs = {(c, root) for c in CTRLS}
    H = {0: {"path": root, "ctrls": list(CTRLS), "created": list(CTRLS), "existing": False, "alive": True}}
    paths = [root]
    procs, member = {}, {}
    nh = 1

    def subset():
        k = r.random()
        if k < 0.35:
            cs = [r.choice(CTRLS)]
        elif k < 0.75:
            cs = r.sample(CTRLS, 2)
        elif k < 0.9:
            cs = r.sample(CTRLS, r.randint(3, 4))
        else:
            cs = list(CTRLS)
        return [c for c in CTRLS if c in cs]

    def make(path, cs):
        created, ex = [], False
        for c in cs:
            if (c, path) in dirs:
                ex = ex or not created
            else:
                dirs.add((c, path))
                created.append(c)
        if path not in paths:
            paths.append(path)
        return created, ex

    def usable(h):
        return H[h]["alive"] and all((c, H[h]["path"]) in dirs for c in H[h]["ctrls"])

    def free(c, path):
        return not any(d[0] == c and d[1].startswith(path + "/") for d in dirs) and \
            not any(procs[p] and member[p].get(c) == path for p in procs)

    def destroy(h):
        ops.append({"op": "destroy", "h": h})
        H[h]["alive"] = False
        if not H[h]["existing"]:
            for c in H[h]["created"]:
                dirs.discard((c, H[h]["path"]))

    for _ in range(r.randint(15, 45)):
        k = r.random()
        live = [h for h in H if usable(h)]
        alive = [p for p in procs if procs[p]]
        if k < 0.22:
            path = root + "/" + r.choice(["a", "b", "c"])
            cs = subset()
            created, ex = make(path, cs)
            ops.append({"op": "pkgnew", "prefix": path, "ctrls": cs, "as": nh})
            H[nh] = {"path": path, "ctrls": cs, "created": created, "existing": ex, "alive": True}
            nh += 1
        elif k < 0.30 and live:
            h = r.choice(live)
            if H[h]["path"].count("/") < 2:
                path = H[h]["path"] + "/" + r.choice(["a", "b", "k"])
                created, ex = make(path, H[h]["ctrls"])
                ops.append({"op": "new", "h": h, "name": path.rsplit("/", 1)[1], "as": nh})
                H[nh] = {"path": path, "ctrls": list(H[h]["ctrls"]), "created": created, "existing": ex, "alive": True}
                nh += 1
        elif k < 0.38:
            path = r.choice(paths + [root + "/a", root + "/b"])
            cs = subset()
            ok = all((c, path) in dirs for c in cs)
            ops.append({"op": "open", "prefix": path, "ctrls": cs, "as": nh, "_expect_err": not ok})
            if ok:
                H[nh] = {"path": path, "ctrls": cs, "created": [], "existing": True, "alive": True}
            nh += 1
        elif k < 0.44:
            path, c = root + "/" + r.choice(["a", "b", "c"]), r.choice(CTRLS)
            if (c, path) not in dirs:
                ops.append({"op": "rawmkdir", "ctrl": c, "prefix": path})
                dirs.add((c, path))
                if path not in paths:
                    paths.append(path)
        elif k < 0.52 and len(procs) < 3:
            i = len(procs)
            ops.append({"op": "spawn", "as": i, "threads": r.randint(0, 2)})
            ops.append({"op": "where", "proc": i, "_initial": True, "_ids": list(range(nh, nh + 5))})
            nh += 5
            procs[i], member[i] = True, {}
        elif k < 0.78 and alive and live:
            h, p = r.choice(live), r.choice(alive)
            # half of the time: a process that is in the group for some of the handle's controllers and not for others
            part = [(hh, pp) for hh in live for pp in alive
                    if 0 < sum(1 for c in H[hh]["ctrls"] if member[pp].get(c) == H[hh]["path"]) < len(H[hh]["ctrls"])]
            if part and r.random() < 0.5:
                h, p = r.choice(part)
            ops.append({"op": "addproc", "h": h, "proc": p})
            for c in H[h]["ctrls"]:
                member[p][c] = H[h]["path"]
            ops.append({"op": "where", "proc": p, "_expect_map": dict(member[p]), "_after": "AddProc through handle %d (%s)" % (h, ",".join(H[h]["ctrls"]))})
            others = [q for q in alive if q != p]
            if others and r.random() < 0.6:
                q = r.choice(others)
                ops.append({"op": "where", "proc": q, "_expect_map": dict(member[q]), "_after": "AddProc of another process"})
        elif k < 0.86 and alive:
            p, c = r.choice(alive), r.choice(["cpu", "cpuacct", "memory", "pids"])
            cand = sorted(d[1] for d in dirs if d[0] == c and d[1] != member[p].get(c))
            if cand:
                path = r.choice(cand)
                ops.append({"op": "rawaddproc", "ctrl": c, "prefix": path, "proc": p, "as": nh})
                nh += 1
                member[p][c] = path
                ops.append({"op": "where", "proc": p, "_expect_map": dict(member[p]), "_after": "somebody else wrote the pid into cgroup.procs of %s" % c})
        elif k < 0.92:
            ops.append({"op": "exists", "prefix": r.choice(paths + [root + "/a", root + "/c"])})
        else:
            cand = [h for h in H if h != 0 and H[h]["alive"] and
                    (H[h]["existing"] or all(free(c, H[h]["path"]) for c in H[h]["created"] if (c, H[h]["path"]) in dirs))]
            if cand:
                h = r.choice(cand)
                destroy(h)
                ops.append({"op": "exists", "prefix": H[h]["path"]})
    for p in procs:
        if procs[p]:
            ops.append({"op": "kill", "proc": p})
            procs[p] = False
    for path in sorted(paths, key=lambda q: (-q.count("/"), q)):
        for h in sorted(H):
            if H[h]["alive"] and H[h]["path"] == path:
                destroy(h)
        for c in CTRLS:
            if (c, path) in dirs:
                ops.append({"op": "rawrmdir", "ctrl": c, "prefix": path})
                dirs.discard((c, path))
    ops.append({"op": "exists", "prefix": root})
    return ops, H


def run(c):
    exe = c.build_harness("h_c20")
    c.build_probe("target")
    scratch = c.tmpdir("scratch")
    env = dict(os.environ, VERIF_SCRATCH=scratch)
    r = c.rng("histories")
    tok = "verif%d_%d" % (os.getpid(), c.seed)
    dis = []

    def cleanup(prefix, v2=False):
        bases = ["/sys/fs/cgroup/" + x for x in CTRLS] if not v2 else []
        for b in bases:
            for dp, dn, fn in os.walk(os.path.join(b, prefix), topdown=False):
                try:
                    os.rmdir(dp)
                except OSError:
                    pass

    # ---------------- (a) histories
    def histories(v2, nh, subsets=False):
        cases = []
        for i in range(nh):
            root = "%s_%s%d" % (tok, "s" if subsets else "u" if v2 else "h", i)
            ops, handles = gen_subset_history(r, root) if subsets else gen_history(r, root, v2)
            cases.append({"id": i, "root": root, "ops": ops})
        wrap_exe, wrap_args = exe, ()
        if v2:
            wrap_exe, wrap_args = "/usr/bin/unshare", ("-m", "--propagation", "private", "sh", "-c", "mount -t cgroup2 none /sys/fs/cgroup && exec " + exe)
        obs = c.run_harness(wrap_exe, [{"id": x["id"], "ops": [{k: v for k, v in o.items() if not k.startswith("_")} for o in x["ops"]]} for x in cases],
                            args=wrap_args, env=env, timeout=900)
        items, src = [], []
        for x, o in zip(cases, obs):
            names = {}
            num = lambda s: names.setdefault(s, len(names) + 1)
            comps = lambda p: coq_list([str(num(t)) for t in p.strip("/").split("/") if t])
            cs_all = "[0]" if v2 else "[0; 1; 2; 3; 4]"
            hist, met_existing, destroyed = [], False, False
            procs_idx, initial = {}, {}
            x["_ctrls"] = {}
            for op, ob in zip(x["ops"], o["obs"]):
                k = op["op"]
                rep = {"hierarchy": "v2" if v2 else "v1", "history": [{kk: vv for kk, vv in q.items() if not kk.startswith("_")} for q in x["ops"]], "observed": o["obs"]}
                if k in ("pkgnew", "new", "open"):
                    if ob.get("err"):
                        if not op.get("_expect_err"):
                            c.finding_or_violation({"kind": "cgroup", "what": "operation fails", "op": k, "error": ob["err"][:60]}, rep, klass="op-fails")
                        continue
                    if op.get("_expect_err"):
                        c.finding_or_violation({"kind": "cgroup", "what": "OpenExisting of a missing group succeeds"}, rep, klass="open-missing")
                        continue
                    path = op["prefix"] if k != "new" else None
                    if k == "new":
                        path = x["_paths"][int(op["h"])] + "/" + op["name"]
                    x.setdefault("_paths", {})[int(op["as"])] = path
                    # the controllers of the handle: asked for (a subset), inherited from the parent handle, or all
                    cl = x["_ctrls"].get(int(op["h"])) if k == "new" else op.get("ctrls")
                    x["_ctrls"][int(op["as"])] = cl
                    cs = coq_list([str(CTRLS.index(cn)) for cn in cl]) if cl and not v2 else cs_all
                    met_existing = met_existing or ((k == "new" or (subsets and k == "pkgnew")) and ob["existing"])
                    hist.append("HOp (%s %s %s) (Some %s)" % ("OOpen" if k == "open" else "ONew", comps(path), cs, "true" if ob["existing"] else "false"))
                elif k == "rawmkdir":
                    hist.append("HOp (ORawMkdir (%d, %s)) None" % (CTRLS.index(op["ctrl"]), comps(op["prefix"])))
                elif k == "rawrmdir":
                    if ob.get("err"):
                        c.finding_or_violation({"kind": "cgroup", "what": "a directory made by somebody else cannot be removed after the handles are gone", "error": ob["err"][:50]},
                                               rep, klass="raw-rmdir")
                    hist.append("HOp (ORawRmdir (%d, %s)) None" % (CTRLS.index(op["ctrl"]), comps(op["prefix"])))
                elif k == "spawn":
                    procs_idx[int(op["as"])] = ob.get("pid")
                elif k == "addproc":
                    if ob.get("err"):
                        c.finding_or_violation({"kind": "cgroup", "what": "AddProc fails", "error": ob["err"][:60]}, rep, klass="addproc-fails")
                    hidx = sorted(x["_paths"]).index(int(op["h"]))
                    hist.append("HOp (OAddProc %d %d) None" % (hidx, int(op["proc"])))
                elif k == "rawaddproc":
                    if ob.get("err"):
                        raise RuntimeError("rawaddproc failed: %s" % ob["err"])
                    # in the model: somebody else's handle on that one directory, and its AddProc
                    x["_paths"][int(op["as"])] = op["prefix"]
                    hist.append("HOp (OOpen %s [%d]) (Some true)" % (comps(op["prefix"]), CTRLS.index(op["ctrl"])))
                    hist.append("HOp (OAddProc %d %d) None" % (sorted(x["_paths"]).index(int(op["as"])), int(op["proc"])))
                elif k == "where":
                    w = ob["where"]
                    keys = ["v2"] if v2 else CTRLS
                    per = []
                    if op.get("_initial"):
                        # where the process starts (the group of the harness): told to the model as a placement by somebody else
                        initial[int(op["proc"])] = {kk: sorted(set(w.get(kk) or ["/"]))[0] for kk in keys}
                        for j, kk in enumerate(keys):
                            g = initial[int(op["proc"])][kk]
                            if g != "/":
                                x["_paths"][int(op["_ids"][j])] = g
                                hist.append("HOp (OOpen %s [%d]) (Some true)" % (comps(g), j))
                                hist.append("HOp (OAddProc %d %d) None" % (sorted(x["_paths"]).index(int(op["_ids"][j])), int(op["proc"])))
                    for kk in keys:
                        gs = set(w.get(kk) or [])
                        if len(gs) != 1:
                            c.finding_or_violation({"kind": "cgroup", "what": "the threads of a moved process are in different groups", "controller": kk},
                                                   dict(rep, where=w), klass="threads-split")
                        per.append(comps(sorted(gs)[0] if gs else "/"))
                        if op.get("_expect") and gs != {"/" + op["_expect"]}:
                            c.finding_or_violation({"kind": "cgroup", "what": "AddProc returned without moving the process into the group", "controller": kk,
                                                    "handle_of_existing_group": op["_via_existing"]}, dict(rep, expected_group="/" + op["_expect"], where=w), klass="not-moved")
                        if "_expect_map" in op:
                            # AddProc really moves the process, in every controller of the handle, and only there; other processes stay
                            want = op["_expect_map"].get(kk)
                            want = "/" + want if want else initial[int(op["proc"])][kk]
                            if gs != {want} and (int(op["proc"]), kk, want) not in x.setdefault("_reported", set()):
                                x["_reported"].add((int(op["proc"]), kk, want))      # one report per misplacement, not one per later look
                                moved = op["_after"].startswith("AddProc through") and op["_expect_map"].get(kk)
                                # the part of the history that concerns this process: its placements, and how the handles used for them were made
                                upto = next(j for j, q in enumerate(x["ops"]) if q is op)
                                mine = [j for j in range(upto + 1) if (x["ops"][j]["op"] in ("addproc", "rawaddproc", "where", "kill") and x["ops"][j].get("proc") == op["proc"])
                                        or (x["ops"][j]["op"] == "spawn" and x["ops"][j]["as"] == op["proc"])]
                                hs = {x["ops"][j]["h"] for j in mine if x["ops"][j]["op"] == "addproc"}
                                mine = sorted(set(mine) | {j for j in range(upto) if x["ops"][j]["op"] in ("pkgnew", "new", "open") and x["ops"][j].get("as") in hs})
                                c.finding_or_violation({"kind": "cgroup", "what": "AddProc returned without moving the process into the group of every controller of the handle"
                                                        if moved else "a process is not in the group it was last put into", "controller": kk, "history_class": "controller-subsets"},
                                                       dict(rep, process=int(op["proc"]), checked_at_step=upto, checked_after=op["_after"], controller=kk, expected_group=want, observed_groups=sorted(gs),
                                                            expected_per_controller={q: ("/" + v if v else initial[int(op["proc"])][q]) for q, v in
                                                                                     ((q, op["_expect_map"].get(q)) for q in keys)},
                                                            observed_per_controller={q: sorted(set(w.get(q) or [])) for q in keys},
                                                            steps_that_concern_the_process=[{"step": j, "op": {a: b for a, b in x["ops"][j].items() if not a.startswith("_")},
                                                                                             "observed": o["obs"][j]} for j in mine]),
                                                       klass="not-moved-subsets")
                    per += ["[]"] * (5 - len(per))
                    hist.append("HWhere %d %s" % (int(op["proc"]), coq_list(per)))
                elif k == "exists":
                    e = ob["exists"]
                    flags = [e["v2"]] + [False] * 4 if v2 else [e[cn] for cn in CTRLS]
                    hist.append("HExists %s %s" % (comps(op["prefix"]), coq_list(["true" if f else "false" for f in flags])))
                elif k == "destroy":
                    destroyed = True
                    hidx = sorted(x["_paths"]).index(int(op["h"])) if int(op["h"]) in x.get("_paths", {}) else None
                    if hidx is not None:
                        hist.append("HOp (ODestroy %d) None" % hidx)
            items.append(coq_list(hist))
            src.append(x)
            c.count(json.dumps(x["ops"]), nontrivial=met_existing and destroyed, klass="history:%s" % ("v1-controller-subsets" if subsets else "v2" if v2 else "v1"))
            left = o["obs"][-1].get("exists", {})
            if any(left.values()):
                c.finding_or_violation({"kind": "cgroup", "what": "destroying every handle leaves the root group behind"},
                                       {"history": x["ops"][-6:], "observed": o["obs"][-6:]}, klass="residue")
            cleanup(x["root"], v2)
        body = HDR + "Definition cs : list (list hop) := %s.\nDefinition M := Eval vm_compute in failing history_ok cs.\nPrint M.\n" % coq_list(items)
        for i in c.parse_nums(c.parse_printed(c.coq_eval("hist_%s" % ("v1s" if subsets else "v2" if v2 else "v1"), body, timeout=1200), "M").replace("%N", "")):
            dis.append({"relation": "history_ok (Existing flags, directories per controller and process placement = step of the model)",
                        "hierarchy": "v2" if v2 else "v1", "history": [{kk: vv for kk, vv in q.items() if not kk.startswith("_")} for q in src[i]["ops"]],
                        "observed": obs[i]["obs"]})
        c.cov["histories_%s" % ("v1_controller_subsets" if subsets else "v2" if v2 else "v1")] = len(cases)
        return obs

    o1 = histories(False, 24 if c.quick() else 200)
    histories(True, 10 if c.quick() else 80)
    histories(False, 16 if c.quick() else 120, subsets=True)
    c.sample({"history": [q for q in o1[0]["obs"][:10]]})

    # ---------------- (b) concurrent creators
    rounds = 40 if c.quick() else 400
    for v2 in (False, True):
        root = "%s_%sc" % (tok, "u" if v2 else "h")
        ops = [{"op": "pkgnew", "prefix": root, "as": 0}]
        base = 100
        for rd in range(rounds):
            pkg = rd % 2 == 1
            name = ("%s/r%d" % (root, rd)) if pkg else "r%d" % rd
            ops.append({"op": "concurrent_new", "h": 0, "name": name, "n": 16, "as": base, "pkg": pkg, "_round": rd})
            ops.append({"op": "exists", "prefix": root + "/r%d" % rd, "_after": "create"})
            ops.append({"op": "_destroy_nonowners", "base": base})
            base += 16
        ops.append({"op": "concurrent_random", "h": 0, "pattern": "rnd*", "n": 16, "as": base})
        # the destroy order depends on who owns: done in a second pass by the harness itself is not possible, so every round destroys all 16 in index order
        ops2 = []
        for o in ops:
            if o["op"] == "_destroy_nonowners":
                for i in range(16):
                    ops2.append({"op": "destroy", "h": o["base"] + i, "_part": "round"})
                ops2.append({"op": "exists", "prefix": ops2[-17]["prefix"], "_after": "destroy"})
            else:
                ops2.append(o)
        for i in range(16):
            ops2.append({"op": "destroy", "h": base + i})
        ops2 += [{"op": "destroy", "h": 0}, {"op": "exists", "prefix": root}]
        wrap_exe, wrap_args = exe, ()
        if v2:
            wrap_exe, wrap_args = "/usr/bin/unshare", ("-m", "--propagation", "private", "sh", "-c", "mount -t cgroup2 none /sys/fs/cgroup && exec " + exe)
        ob = c.run_harness(wrap_exe, [{"id": 0, "ops": [{k: v for k, v in o.items() if not k.startswith("_")} for o in ops2]}], args=wrap_args, env=env, timeout=900)[0]["obs"]
        hname = "v2" if v2 else "v1"
        i = 0
        while i < len(ops2):
            op, o = ops2[i], ob[i]
            if op["op"] == "concurrent_new":
                ex = o["existing"]
                owners = sum(1 for e in ex if e is False)
                errors = [e for e in ex if isinstance(e, str)]
                after_create = ob[i + 1]["exists"]
                c.count("conc-%s-%d" % (hname, op["_round"]), nontrivial=True, klass="concurrent:%s:%s" % (hname, "pkg" if op["pkg"] else "handle"))
                rep = {"hierarchy": hname, "creators": 16, "through": "cgroup.New(prefix)" if op["pkg"] else "handle.New(name)", "existing_flags": ex,
                       "group_exists_afterwards": after_create}
                if owners != 1:
                    c.finding_or_violation({"kind": "cgroup", "what": "concurrent creators of one group: number of owners is not one", "hierarchy": hname,
                                            "through": "package" if op["pkg"] else "handle", "errors": bool(errors)}, dict(rep, owners=owners), klass="owners:%s" % hname)
                elif not all(after_create.values()):
                    c.finding_or_violation({"kind": "cgroup", "what": "the group of a successful creator does not exist", "hierarchy": hname}, rep, klass="vanished")
                # destroys in index order: the group must exist until the owner's Destroy and be gone after it
                owner_idx = ex.index(False) if owners == 1 else None
                final = ob[i + 18]["exists"]
                # the owner made the directory of the first controller (the mkdir that decides ownership): that one must be gone.  Directories of
                # later controllers made by a creator that lost the race for the first one stay behind (nobody owns them): reported in the
                # coverage, the statement of the property does not speak about them
                first = "v2" if v2 else "cpu"
                if owners == 1 and any(v for k, v in final.items() if k != first):
                    c.cov["orphaned_controller_dirs_after_concurrent_create"] = c.cov.get("orphaned_controller_dirs_after_concurrent_create", 0) + 1
                if owners == 1 and final.get(first):
                    c.finding_or_violation({"kind": "cgroup", "what": "the owner's Destroy does not remove the group", "hierarchy": hname}, dict(rep, after=final), klass="undestroyed")
                i += 19
                continue
            if op["op"] == "concurrent_random":
                names = o["names"]
                if len(set(names)) != 16:
                    c.finding_or_violation({"kind": "cgroup", "what": "concurrent Random returns the same group twice or fails", "hierarchy": hname},
                                           {"names": names}, klass="random")
            i += 1
        cleanup(root, v2)
    c.cov["concurrent_rounds"] = 2 * rounds

    # ---------------- (b2) populations of live siblings from Random: thousands of groups made through one parent handle that are all
    # alive at the same time (a busy judge, or groups that leaked), made partly one after the other and partly by concurrent workers.
    # What the user relies on: every handle returned by Random stands for a group of its own, made by that call.
    rp = c.rng("populations")
    npop = 3000 if c.quick() else 4000
    for v2 in (False, True):
        hname = "v2" if v2 else "v1"
        root = "%s_%sp" % (tok, "u" if v2 else "h")
        pcs = rp.choice([["cpuacct"], ["cpuacct", "pids"], ["cpu", "cpuacct"], ["pids"]])
        pattern = rp.choice(["run*", "*.job", "s*x", "*", "box-*"])
        first = rp.choice([npop // 6, npop // 3, npop // 2])
        stages = [(first, 1), (npop - first, rp.choice([4, 8, 16]))]
        pops = [{"op": "pkgnew", "prefix": root, "as": 0, "ctrls": pcs}]
        base = 10
        for n, workers in stages:
            pops.append({"op": "random_many", "h": 0, "pattern": pattern, "n": n, "workers": workers, "as": base, "prefix": root})
            base += n
        pops.append({"op": "destroy_many", "as": 10, "n": npop, "prefix": root})
        pops += [{"op": "destroy", "h": 0}, {"op": "exists", "prefix": root}]
        wrap_exe, wrap_args = exe, ()
        if v2:
            wrap_exe, wrap_args = "/usr/bin/unshare", ("-m", "--propagation", "private", "sh", "-c", "mount -t cgroup2 none /sys/fs/cgroup && exec " + exe)
        ob = c.run_harness(wrap_exe, [{"id": 0, "ops": pops}], args=wrap_args, env=env, timeout=900)[0]["obs"]
        if ob[0].get("err"):
            raise RuntimeError("population scenario: the parent group cannot be made: %s" % ob[0]["err"])
        setting = {"hierarchy": hname, "parent": root, "parent_controllers": "v2" if v2 else pcs, "pattern": pattern,
                   "stages": [{"calls_of_Random": n, "concurrent_workers": w} for n, w in stages], "all_groups_alive_at_once": True}
        names, flags, counts = [], [], []
        for op, o in zip(pops, ob):
            if op["op"] == "random_many":
                names += o["names"]
                flags += o["existing"]
                counts.append({"handles_returned_so_far": sum(1 for e in flags if not isinstance(e, str)), "directories_below_the_parent": o["children"]})
                c.count("population-%s-%d-%d" % (hname, op["n"], op["workers"]), nontrivial=True, klass="random-population:%s" % hname)
        errors = [(i, e) for i, e in enumerate(flags) if isinstance(e, str)]
        shared = [i for i, e in enumerate(flags) if e is True]
        by_name = {}
        for i, nm in enumerate(names):
            if nm:
                by_name.setdefault(nm, []).append(i)
        dup = {nm: l for nm, l in by_name.items() if len(l) > 1}
        if errors:
            c.finding_or_violation({"kind": "cgroup-random-population", "what": "Random fails among many live siblings", "hierarchy": hname},
                                   dict(setting, failing_calls=[{"call": i, "error": e} for i, e in errors[:5]]), klass="random-population-error")
        if shared or dup:
            # handed out twice: a call met the group of a live handle (Existing() is true, or the same group came back from two calls)
            c.finding_or_violation({"kind": "cgroup-random-population", "what": "Random hands out a group that another live handle already stands for", "hierarchy": hname},
                                   dict(setting, expected="every call returns a handle with Existing() == false on a group that no other live handle stands for; "
                                        "%d handles = %d groups below the parent" % (counts[-1]["handles_returned_so_far"], counts[-1]["handles_returned_so_far"]),
                                        observed={"handles_with_Existing_true": [{"call": i, "group": names[i], "calls_that_returned_this_group": by_name.get(names[i])} for i in shared[:8]],
                                                  "number_of_handles_with_Existing_true": len(shared),
                                                  "groups_returned_by_more_than_one_call": [{"group": nm, "calls": l} for nm, l in sorted(dup.items())[:8]],
                                                  "distinct_groups_named": len(by_name), "after_each_stage": counts}), klass="random-population-shared")
        elif any(v != k["handles_returned_so_far"] for k in counts for v in k["directories_below_the_parent"].values()):
            c.finding_or_violation({"kind": "cgroup-random-population", "what": "the number of groups below the parent is not the number of handles Random returned", "hierarchy": hname},
                                   dict(setting, after_each_stage=counts), klass="random-population-count")
        d = ob[len(stages) + 1]
        if d["errors"] or any(v != 0 for v in d["children"].values()):
            c.finding_or_violation({"kind": "cgroup-random-population", "what": "destroying every handle of the population does not remove exactly its groups", "hierarchy": hname},
                                   dict(setting, destroy_errors=d["errors"], first_error=d["first_error"], directories_left_below_the_parent=d["children"]), klass="random-population-destroy")
        elif any(ob[-1]["exists"].values()):
            c.finding_or_violation({"kind": "cgroup-random-population", "what": "the parent of the population is still there after its Destroy", "hierarchy": hname},
                                   dict(setting, exists=ob[-1]["exists"], destroy_error=ob[-2].get("err")), klass="random-population-destroy")
        c.cov["random_population_%s" % hname] = len(names)
        cleanup(root, v2)

    # ---------------- (c) limits and usage (v1: the controllers are bound to v1 on this machine)
    root = tok + "_l"
    ops = [{"op": "pkgnew", "prefix": root, "as": 0}]
    lim = []
    for i in range(6 if c.quick() else 40):
        mem = r.choice([4, 8, 16, 64, 1000, 1 << 18]) * 4096 * r.randint(1, 50)
        pids = r.choice([0, 1, r.randint(1, 5000), r.randint(1, 5000), 4194304])
        period = r.choice([100000, 50000, 1000000, 1000])
        quota = r.randint(1000, 4 * period)
        ops.append({"op": "new", "h": 0, "name": "g%d" % i, "as": i + 1})
        # a history of settings on one group: each one must be in force after its call, whatever was set before (default values included)
        for step in range(r.randint(1, 4)):
            cs = r.choice(["0", "1", "0-1", "1-2", "0,2"]) if (os.cpu_count() or 1) >= 4 else "0"
            op_ = {"op": "setlimits", "h": i + 1, "prefix": "%s/g%d" % (root, i), "mem": mem, "pids": pids, "quota": quota, "period": period, "cpuset": cs}
            memx = mem
            if r.random() < 0.35:
                # boundary values: "no limit" requests at the top of the range, values that are not a multiple of the page size
                # (the kernel keeps whole pages, rounding down, and caps at PAGE_COUNTER_MAX pages)
                raw = r.choice([(1 << 64) - 1, (1 << 64) - 2, (1 << 64) - 4096, (1 << 63) + 5, 4097, 12345678, (1 << 40) + 1, mem + 1, mem + 4095])
                op_["mem_s"] = str(raw)
                memx = min(raw // 4096, ((1 << 63) - 1) // 4096) * 4096
            ops.append(op_)
            lim.append((memx, pids, quota, period, cs))
            mem = r.choice([4, 8, 16, 64, 1000, 1 << 18]) * 4096 * r.randint(1, 50)
            pids = r.choice([0, 1, r.randint(1, 5000), r.randint(1, 5000), 4194304])
            period = r.choice([100000, 100000, 50000, 1000000, 1000])
            quota = r.randint(1000, 4 * period)
        # another handle on the same group (opened, created again under the same name, or created again through the parent): the limits stay
        how = i % 3
        if how == 0:
            ops.append({"op": "open", "prefix": "%s/g%d" % (root, i), "as": 500 + i})
        elif how == 1:
            ops.append({"op": "pkgnew", "prefix": "%s/g%d" % (root, i), "as": 500 + i})
        else:
            ops.append({"op": "new", "h": 0, "name": "g%d" % i, "as": 500 + i})
        ops.append({"op": "readlimits", "prefix": "%s/g%d" % (root, i), "_after": ["OpenExisting", "New on the same prefix", "parent.New on the same name"][how], "_lim": len(lim) - 1})
    # a handle is destroyed while groups that others made still exist below its group: nothing below may be touched
    busy = tok + "_busy"
    bops = [{"op": "pkgnew", "prefix": busy, "as": 0}, {"op": "new", "h": 0, "name": "kid", "as": 1},
            {"op": "rawmkdir", "ctrl": "pids", "prefix": busy + "/foreign"},
            {"op": "setlimits", "h": 1, "prefix": busy + "/kid", "mem": 64 << 20, "pids": 7, "quota": 50000, "period": 100000},
            {"op": "destroy", "h": 0, "_expect_busy": True},
            {"op": "exists", "prefix": busy + "/kid", "_must": "all"}, {"op": "exists", "prefix": busy + "/foreign", "_must": "pids"},
            {"op": "readlimits", "prefix": busy + "/kid", "_pids": "7"},
            {"op": "destroy", "h": 1}, {"op": "rawrmdir", "ctrl": "pids", "prefix": busy + "/foreign"}, {"op": "destroy", "h": 0},
            {"op": "exists", "prefix": busy, "_must": "none"}]
    bob = c.run_harness(exe, [{"id": 0, "ops": [{k: v for k, v in op.items() if not k.startswith("_")} for op in bops]}], env=env, timeout=300)[0]["obs"]
    c.count("destroy-with-subgroups", nontrivial=True, klass="busy")
    for op, o in zip(bops, bob):
        bad = None
        if op.get("_expect_busy") and not o.get("err"):
            bad = "Destroy of a group that still has sub-groups reports success"
        elif op.get("_must") == "all" and not all(o["exists"].values()):
            bad = "a sub-group made through another handle was removed by the parent's Destroy"
        elif op.get("_must") == "pids" and not o["exists"].get("pids"):
            bad = "a group somebody else made below the handle's group was removed by Destroy"
        elif op.get("_must") == "none" and any(o["exists"].values()):
            bad = "the group is still there after its sub-groups and then the group itself were destroyed"
        elif "_pids" in op and o.get("pids") != op["_pids"]:
            bad = "limits of a sub-group were lost when the parent's handle was destroyed"
        elif op["op"] in ("pkgnew", "new", "rawmkdir", "rawrmdir") and o.get("err"):
            raise RuntimeError("busy scenario: %s failed: %s" % (op["op"], o["err"]))
        elif op["op"] == "destroy" and not op.get("_expect_busy") and o.get("err"):
            bad = "Destroy of an empty group made by this handle fails: " + str(o["err"])[:60]
        if bad:
            c.finding_or_violation({"kind": "cgroup", "what": bad}, {"history": [{k: v for k, v in x.items() if not k.startswith("_")} for x in bops], "observed": bob}, klass="busy")
            break
    cleanup(busy)
    burns = [(40, 8), (120, 24)] if c.quick() else [(40, 8), (120, 24), (300, 64), (20, 2), (200, 100)]
    for j, (ms, mb) in enumerate(burns):
        ops += [{"op": "new", "h": 0, "name": "b%d" % j, "as": 200 + j}, {"op": "burn", "h": 200 + j, "ms": ms, "mb": mb}]
    for i in range(6 if c.quick() else 40):
        ops.append({"op": "destroy", "h": i + 1})
    for j in range(len(burns)):
        ops.append({"op": "destroy", "h": 200 + j})
    ops.append({"op": "destroy", "h": 0})
    ob = c.run_harness(exe, [{"id": 0, "ops": [{k: v for k, v in op.items() if not k.startswith("_")} for op in ops]}], env=env, timeout=600)[0]["obs"]
    li = bi = 0
    for op, o in zip(ops, ob):
        if op["op"] == "setlimits":
            mem, pids, quota, period, cs = lim[li]
            li += 1
            c.count("limits-%d" % li, nontrivial=True, klass="limits")
            got = (o["mem"], o["pids"], o["quota"], o["period"], o["cpuset"])
            if got != (str(mem), str(pids), str(quota), str(period), cs) or o["mem_err"] or o["pids_err"] or o["cpu_err"] or o.get("cpuset_err"):
                c.finding_or_violation({"kind": "cgroup", "what": "the limits written are not the limits in force"},
                                       {"written": {"memory": mem, "pids": pids, "cfs_quota_us": quota, "cfs_period_us": period, "cpuset": cs}, "kernel_files": o}, klass="limits")
        elif op["op"] == "readlimits":
            mem, pids, quota, period, cs = lim[op["_lim"]]
            c.count("limits-reopen-%d" % op["_lim"], nontrivial=True, klass="limits-reopen")
            got = (o["mem"], o["pids"], o["quota"], o["period"], o["cpuset"])
            if got != (str(mem), str(pids), str(quota), str(period), cs):
                c.finding_or_violation({"kind": "cgroup", "what": "the limits written are no longer in force after another handle was made for the group", "by": op["_after"]},
                                       {"written": {"memory": mem, "pids": pids, "cfs_quota_us": quota, "cfs_period_us": period, "cpuset": cs}, "kernel_files": o}, klass="limits-reopen")
        elif op["op"] == "burn":
            ms, mb = burns[bi]
            bi += 1
            c.count("burn-%d" % bi, nontrivial=True, klass="usage")
            # a unit check (a reading in microseconds would be 1000 times smaller): wide enough for a loaded machine, where the accounting of
            # the group runs ahead of the child's own CPU clock
            # (seen on a machine with 60 runnable processes: 2.3 s charged to the group for a child that burnt 40 ms; a reading in the wrong
            # unit is off by a factor of 1000 either way, so the window is half .. 400 times the child's own time)
            ok_cpu = o.get("cpu_err") is None and ms * 0.5e6 <= o["cpu_ns"] <= ms * 400e6 + 1e9
            ok_mem = o.get("mem_err") is None and mb * (1 << 20) * 0.9 <= o["mem_peak"] <= mb * (1 << 20) + (64 << 20)
            if not (ok_cpu and ok_mem):
                c.finding_or_violation({"kind": "cgroup", "what": "usage readings are not in nanoseconds / bytes", "cpu_ok": ok_cpu, "mem_ok": ok_mem},
                                       {"child_burned_ms": ms, "child_touched_mb": mb, "readings": o}, klass="units")
    cleanup(root)

    # ---------------- (d) readers of statistics files
    pc = []
    nparse = 150 if c.quick() else 1500
    big = [0, 1, 999, 10 ** 9, 2 ** 31, 2 ** 53, 18446744073709551, 18446744073709552, 2 ** 63 - 1, 2 ** 63, 2 ** 64 - 1, 2 ** 64, -1, -5]
    for _ in range(nparse):
        lines = []
        for _ in range(r.randint(0, 6)):
            # field names of which usage_usec is a proper suffix / prefix come before and after the real line
            k = r.choice(["user_usec", "system_usec", "nr_periods", "usage_usec", "usage_usec", "throttled_usec", "usage_usecs", "", "core_sched.usage_usec", "xusage_usec"])
            nf = r.choice([1, 1, 1, 1, 0, 2])
            vals = [str(r.choice(big)) if r.random() < 0.85 else r.choice(["abc", "1e3", "0x10", "12.5"]) for _ in range(nf)]
            lines.append(" ".join(([k] if k else []) + vals))
        single = r.choice([str(r.choice(big)), "  %d\n" % r.choice(big), "abc", "", "12 34", "1_000", "0x10", "007", "\n"])
        files = {"cpu.stat": "\n".join(lines) + ("\n" if r.random() < 0.8 else ""), "memory.current": single, "memory.peak": single, "pids.peak": single,
                 "cpuacct.usage": single, "memory.usage_in_bytes": single, "memory.max_usage_in_bytes": single, "cgroup.procs": "1\n22\n"}
        pc.append({"id": len(pc), "mode": "parse", "files": files})
    po = c.run_harness(exe, pc, env=env, timeout=600)
    cpu_items, uint_items = [], []

    def toks(line):
        out = []
        for t in line.split():
            s = t[1:] if t[:1] == "-" else t
            if s.isdigit() and s.isascii():
                out.append("TNum (%s)%%Z" % t)
            else:
                out.append("TWord %d" % (1 if t == "usage_usec" else 2 + (hash(t) % 50)))
        return coq_list(out)

    def rdv(v):
        return "RErr" if v == "err" else "ROk %s%%Z" % v
    for x, o in zip(pc, po):
        c.count(json.dumps(x["files"]), nontrivial="usage_usec" in x["files"]["cpu.stat"], klass="parse")
        cpu_items.append("(%s, %s)" % (coq_list([toks(l) for l in x["files"]["cpu.stat"].split("\n")]), rdv(o["v2_cpu"])))
        uint_items.append("(%s, %s)" % (toks(x["files"]["memory.current"]), rdv(o["v2_mem"])))
        same = {o[k] for k in ("v2_mem", "v2_mempeak", "v2_pidspeak", "v1_cpu", "v1_mem", "v1_mempeak")}
        # the documented unit: the number in the file, whatever its size (up to 2^64 - 1)
        txt = x["files"]["memory.current"].strip()
        if txt.isdigit() and txt.isascii() and int(txt) < 1 << 64:
            for k in ("v2_mem", "v2_mempeak", "v2_pidspeak", "v1_cpu", "v1_mem", "v1_mempeak"):
                if o[k] != str(int(txt)):
                    c.finding_or_violation({"kind": "cgroup", "what": "a usage reader does not return the number that is in the file", "digits": len(txt)},
                                           {"content": x["files"]["memory.current"], "reader": k, "returned": o[k]}, klass="reader-value")
                    break
        if len(same) != 1:
            c.finding_or_violation({"kind": "cgroup", "what": "the single-number readers disagree on one content"}, {"content": x["files"]["memory.current"], "readings": o}, klass="readers")
    body = HDR + ("Definition cpu : list (list (list tok) * rd) := %s.\nDefinition MC := Eval vm_compute in failing cpu_ok cpu.\nPrint MC.\n"
                  "Definition ui : list (list tok * rd) := %s.\nDefinition MU := Eval vm_compute in failing uint_ok ui.\nPrint MU.\n") % (coq_list(cpu_items), coq_list(uint_items))
    out = c.coq_eval("parse", body, timeout=1200)
    for i in c.parse_nums(c.parse_printed(out, "MC").replace("%N", "")):
        dis.append({"relation": "cpu_ok (CPUUsage of cpu.stat = cpu_usage)", "content": pc[i]["files"]["cpu.stat"], "returned": po[i]["v2_cpu"]})
    for i in c.parse_nums(c.parse_printed(out, "MU").replace("%N", "")):
        dis.append({"relation": "uint_ok (ReadUint = read_uint)", "content": pc[i]["files"]["memory.current"], "returned": po[i]["v2_mem"]})
    c.sample({"cpu.stat": pc[0]["files"]["cpu.stat"], "single": pc[0]["files"]["memory.current"], "readings": po[0]})
    c.cov["parse_cases"] = nparse
    c.cov["traces_validated_against_impl"] = c.cov.get("histories_v1", 0) + c.cov.get("histories_v2", 0) + 2 * nparse
    c.cov["correspondence_disagreements"] = len(dis)
    if dis:
        c.cov["disagreement_samples"] = dis[:3]
        if not c.violations:
            c.violation({"kind": "correspondence-broken", "theorems_no_longer_about_the_code": c.theorems, "disagreements": dis[:5]}, no_input=True)

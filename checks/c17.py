"""C17 — concurrent sandboxes in one process are independent.
Tie: sets of 16 workloads mixing the three runners (ptrace runs on their own threads, namespace runs, several container
environments, several concurrent calls on one environment) are run one by one and then all at once in ONE host process,
while background goroutines keep creating inheritable descriptors under ForkLock.RLock (the protocol of the model).  Every
workload must produce the same verdict, exit value and descriptor table (reported by the program itself) both times; no run
may hang.  Runs that are killed by their runner (cancelled spinning programs, programs that die of a signal, tracees with
children) are mixed in, because their teardown is what could reach other runs.
Launch windows: the launching thread of a run is held after every system call of its launch (forkexec starts of every configuration,
user namespaces with id maps of many shapes, namespace runs, traced runs, a container environment) and a second run is launched at
that very point by another goroutine: it must get the descriptor table it gets alone (launch_windows below)."""
import json
import os
import re
import subprocess

FINISH = dict(level="proof", rule=(
    "6 (thorough 60) sets of 16 workloads drawn from {ptrace, namespace, container on one of 3 environments} x {descriptor-table "
    "report + exit n, exit n, death by signal n, spinning program cancelled after 40..120 ms, process tree cancelled}; 8 background "
    "goroutines holding inheritable descriptors under ForkLock.RLock.  Non-trivial: a set with all three runners, two calls on "
    "one environment and a cancelled run; distinct = distinct sets.  Launch windows: 30 (thorough 68) launches of the forkexec / namespace / "
    "ptrace / container launchers stepped one system call at a time, a second run (forkexec, os/exec, namespace run) launched at every point "
    "where the descriptor table of the process changed and the fork lock is free."))


# ---- launch windows, one system call at a time ------------------------------------------------------------------------------------
# The launches whose windows are explored (harness h_c17step): forkexec starts of every configuration and outcome (those of h_fdtrace,
# the id map shapes, and drawn ones: namespace sets with and without a user namespace, id maps of 1..6 extents, callbacks, failing
# programs), whole namespace runs, whole traced runs, a container environment built, used and destroyed.
def step_cases(c):
    r = c.rng("windows")
    fe = lambda name, **kw: dict({"name": name, "launcher": "forkexec", "prog": "exit0"}, **kw)
    um = [[0, 0, 70000]]
    bad = [[0, 0, 10], [5, 100, 10]]
    cases = [
        fe("ok"), fe("ok_sync", sync="accept"), fe("enoent", prog="enoent"), fe("enoent_sync", prog="enoent", sync="accept"), fe("enoexec", prog="enoexec"),
        fe("etxtbsy", prog="etxtbsy"), fe("chdir", baddir=True), fe("chdir_sync", baddir=True, sync="accept"), fe("refuse", sync="refuse"), fe("badfile", badfile=True),
        fe("userns", clone=["user"], uid=um, gid=um), fe("userns_enoent", prog="enoent", clone=["user"], uid=um, gid=um),
        fe("userns_badmap", clone=["user"], uid=bad, gid=um), fe("userns_refuse", clone=["user"], uid=um, gid=um, sync="refuse"),
        fe("ns_enoent", prog="enoent", clone=["ns", "pid"]), fe("seccomp_enoent", prog="enoent", seccomp=True), fe("ptrace_enoent", prog="enoent", ptrace=True),
        fe("ptrace_chdir", ptrace=True, seccomp=True, baddir=True),
        # id maps of several shapes and none
        fe("idmap_default", clone=["user"]),
        fe("idmap_two_extents", clone=["user"], uid=[[0, 1000, 1], [1, 100000, 65536]], gid=[[0, 3000, 2], [5, 20000, 10]]),
        fe("idmap_gid_only", clone=["user"], gid=[[0, 65534, 1], [1, 1, 1], [2, 2, 1], [10, 1000000, 1000]], setgroups=True),
    ] + ([] if c.quick() else [
        fe("idmap_whole_range", clone=["user"], uid=[[0, 0, 4294967295]]),
        fe("idmap_five_extents", clone=["user"], uid=[[i, 7 + i, 1] for i in range(5)], gid=[[0, 123456789, 10]]),
    ]) + [
        {"name": "namespace_run", "launcher": "unshare", "prog": "exit0"},
        {"name": "namespace_run_sync_enoent", "launcher": "unshare", "prog": "enoent", "sync": "accept"},
        {"name": "traced_run", "launcher": "ptrace", "prog": "exit0"},
        {"name": "traced_run_enoent", "launcher": "ptrace", "prog": "enoent"},
        {"name": "container_build_use_destroy", "launcher": "container"},
    ]

    def extents():
        n, at, host, res = r.randint(1, 6), 0, r.randint(0, 5000), []
        for _ in range(n):
            size = r.choice([1, 1, 2, 10, 1000, 65536])
            res.append([at, host, size])
            at, host = at + size + r.choice([0, 0, 3]), host + size + r.choice([0, 7, 100000])
        return res
    for k in range(4 if c.quick() else 40):
        others = [f for f in ("ns", "pid", "net", "ipc", "uts", "cgroup") if r.random() < 0.35]
        user = r.random() < 0.75
        kw = {"clone": (["user"] if user else []) + others}
        if user:
            kw["uid"] = r.choice([None, extents(), extents()])
            kw["gid"] = r.choice([None, extents(), extents()])
            kw["setgroups"] = r.random() < 0.3
        kw["sync"] = r.choice(["", "", "accept", "refuse"])
        kw["prog"] = r.choice(["exit0", "exit0", "enoent"])
        if r.random() < 0.2:
            kw["seccomp"] = True
        cases.append(fe("drawn%d" % k, **kw))
    return cases


KIND_NAME = {0: "forkexec.Runner.Start", 1: "os/exec (standard library)", 2: "namespace run (runner/unshare)"}


def launch_windows(c, env):
    """Two runs of one process, every interleaving at system call granularity of the launch of the first with the clone of the second:
    the launching thread of run A is held (ptrace) after each system call of its launch; while it is held, run B -- a program that
    reports the descriptor table it was started with -- is launched by another goroutine of the same process (unless the held thread
    owns the fork lock: then no clone can happen at that point).  B must get what it gets when launched while nothing else goes on:
    descriptors 0, 1, 2 and nothing else, and its own exit value; A must end as it ends when it is not interrupted."""
    exe = c.build_harness("h_c17step")
    c.build_probe("c17fds")
    wdir = c.tmpdir("windows")
    cases = step_cases(c)
    cpath = os.path.join(wdir, "cases.json")
    with open(cpath, "w") as f:
        json.dump(cases, f)
    e = dict(env, VERIF_SCRATCH=wdir, C17STEP_CASES=cpath, C17STEP_ROT=str(c.seed), C17STEP_BUDGET_S="150" if c.quick() else "900")
    if not c.quick():
        e["C17STEP_ALL"] = "1"
    pr = subprocess.run([exe], env=e, stdout=subprocess.PIPE, stderr=subprocess.PIPE, timeout=1200)
    lines = [ln for ln in pr.stdout.decode(errors="replace").splitlines() if ln.startswith("{")]
    if pr.returncode != 0 or not lines:
        raise RuntimeError("h_c17step: rc %d %s" % (pr.returncode, pr.stderr.decode(errors="replace")[-400:]))
    o = json.loads(lines[-1])
    if "harness_err" in o:
        raise RuntimeError("h_c17step: " + o["harness_err"])
    for m in o["info"]:
        if "harness_err" in m or "harness_err" in (m.get("res") or {}):
            raise RuntimeError("h_c17step (host process): %s" % m)
    proj = lambda out: [e3[:3] for e3 in json.loads(out)]
    # the second run while nothing else goes on (twice per launcher): this is "alone"
    alone = {}
    for b in o["baseline"]:
        if "stdout" not in b or b.get("error") or b.get("exit") != 7:
            raise RuntimeError("h_c17step: the second run does not work on its own: %s" % b)
        t = proj(b["stdout"])
        if alone.setdefault(b["kind"], t) != t or t != [[0, 0, 0], [1, 1, 0], [2, 1, 0]]:
            raise RuntimeError("h_c17step: the second run on its own does not see descriptors 0, 1, 2 only: %s" % b)
    if sorted(alone) != [0, 1, 2]:
        raise RuntimeError("h_c17step: no second runs alone (%s)" % (o.get("aborted") or "?"))
    res_alone = {m["i"]: m["res"] for m in o["info"] if m["t"] == "alone"}
    res_held = {m["i"]: m["res"] for m in o["info"] if m["t"] == "result"}
    nprobe = nlocked = nskipped = 0
    for i, rec in enumerate(o["cases"]):
        x = cases[i]
        c.count(("window", json.dumps(x, sort_keys=True)), nontrivial=True, klass="launch-window." + x["launcher"])
        reported = False
        for st in rec["steps"]:
            p = st["probe"]
            if "locked" in p:
                nlocked += 1
                continue
            if "skipped" in p or "stdout" not in p:
                nskipped += 1
                continue
            nprobe += 1
            c.evaluations += 1
            try:
                tab = json.loads(p["stdout"])
            except ValueError:
                tab = None
            ok = tab is not None and [t[:3] for t in tab] == alone[p["kind"]] and p.get("exit") == 7 and not p.get("error")
            if ok or reported:
                continue
            reported = True         # one replay per launch: the first point of the window at which the second run differs
            extra = [t for t in (tab or []) if t[0] > 2]
            where = "%s system call %d of the launch: %s" % (st["at"], st["n"] + (1 if st["at"] == "before" else 0), st["call"])
            c.finding_or_violation(
                {"kind": "independence", "what": "a run launched while another run of the process is in the middle of its launch does not get the descriptor table "
                 "(or result) it gets alone: it receives descriptors of the other run's launch" if extra else
                 "a run launched while another run of the process is in the middle of its launch does not get the descriptor table (or result) it gets alone",
                 "first_run": x["launcher"], "user_namespace": "user" in (x.get("clone") or []) or x["launcher"] in ("unshare", "container")},
                {"first_run_A": x, "system_calls_of_A_s_launching_thread_so_far": rec["calls"][:st["n"]],
                 "second_run_B": {"launcher": KIND_NAME[p["kind"]], "program": "probe_c17fds 7 (prints its descriptor table [fd, access mode, close-on-exec, link], exits 7)",
                                  "launched": where + "  (A's launching thread held there; the fork lock is free)"},
                 "expected_B_alone": {"exit": 7, "descriptors [fd, access mode, close-on-exec]": json.dumps(alone[p["kind"]])},
                 "observed_B": {"exit": p.get("exit"), "error": p.get("error"), "descriptors [fd, access mode, close-on-exec, link]": p["stdout"][:1500],
                                "descriptors_that_are_not_its_own": [json.dumps(t) for t in extra]},
                 "descriptor_table_of_the_host_process_at_that_point [fd, link, close-on-exec]": [json.dumps(t) for t in st.get("host_fds") or []],
                 "later_points_of_this_launch_with_the_same_deviation": sum(
                     1 for s2 in rec["steps"] if "stdout" in s2["probe"] and s2["probe"]["stdout"].startswith("[[") and
                     [t[:3] for t in json.loads(s2["probe"]["stdout"])] != alone[s2["probe"]["kind"]]) - 1},
                klass="launch-window")
        if i in res_held and res_held[i] != res_alone.get(i):
            c.finding_or_violation({"kind": "independence", "what": "a launch ends differently when other runs of the process are launched between its system calls", "first_run": x["launcher"]},
                                   {"first_run_A": x, "result_uninterrupted": res_alone.get(i), "result_with_second_runs_launched_in_its_window": res_held[i],
                                    "system_calls_of_A_s_launching_thread": rec["calls"]}, klass="launch-window-result")
    c.cov["launch_windows_stepped"] = len(o["cases"])
    c.cov["second_runs_launched_inside_a_window"] = nprobe
    c.cov["window_points_with_fork_lock_held"] = nlocked
    c.cov["window_points_with_unchanged_descriptor_table"] = o.get("points_with_unchanged_table", 0)
    c.cov["window_points_not_tried"] = nskipped
    if o.get("aborted"):
        c.cov["launch_windows_cut_short"] = o["aborted"]
    if len(o["cases"]) < len(cases) and not o.get("aborted"):
        raise RuntimeError("h_c17step: %d of %d launches stepped and no reason given" % (len(o["cases"]), len(cases)))
    if nprobe < 60:
        raise RuntimeError("h_c17step: only %d second runs were launched inside windows (%s)" % (nprobe, o.get("aborted") or "late: %s" % o.get("late")))


def run(c):
    exe = c.build_harness("h_c17")
    c.build_probe("target")
    scratch = c.tmpdir("scratch")
    env = dict(os.environ, VERIF_SCRATCH=scratch)
    r = c.rng("sets")
    cases = []
    nset = 6 if c.quick() else 60
    for si in range(nset):
        ws = []
        for wi in range(16):
            kind = r.choice(["ptrace", "ptrace", "ns", "container", "container"])
            k = r.random()
            w = {"kind": kind}
            if kind == "container":
                w["env"] = r.choice([0, 0, 1, 2])
            if k < 0.4:
                w["prog"] = ["fds", "-", "256", str(r.randint(0, 99))]
            elif k < 0.6:
                w["prog"] = ["exit", str(r.randint(0, 200))]
            elif k < 0.72:
                w["prog"] = ["sig", str(r.choice([6, 8, 11, 15, 9]))]
            elif k < 0.88:
                w["prog"], w["cancel_ms"] = ["spin"], r.randint(40, 120)
            else:
                w["prog"], w["cancel_ms"] = ["tree", "2", "c17tok%d_%d" % (si, wi)], r.randint(60, 150)
            ws.append(w)
        # every set has two calls on one environment, all runners and a cancelled ptrace run
        ws[0] = {"kind": "container", "env": 0, "prog": ["fds", "-", "256", "41"]}
        ws[1] = {"kind": "container", "env": 0, "prog": ["exit", "42"]}
        ws[2] = {"kind": "ptrace", "prog": ["spin"], "cancel_ms": 50}
        ws[3] = {"kind": "ns", "prog": ["fds", "-", "256", "43"]}
        ws[4] = {"kind": "ptrace", "prog": ["fds", "-", "256", "44"]}
        # traced runs whose handler decides by the path it is shown: a path that carries another run's tag is another run's trap event
        for j, wi in enumerate((5, 6, 7, 8)):
            ws[wi] = {"kind": "ptrace_paths", "prog": ["probe", "3000", "c17run-%d-%d" % (si, j)]}
        # traced programs with descendants that are still alive when the run is cut or when the main program ends: their teardown must
        # reach nobody else
        ws[11] = {"kind": "ptrace", "prog": ["tree", "2", "c17tok%d_a" % si], "cancel_ms": 80}
        ws[12] = {"kind": "ptrace", "prog": ["tree", "2", "c17tok%d_b" % si], "cancel_ms": 150}
        # a call whose caller has given up before it is made, next to the other calls on the same environment
        if si % 3 != 0:
            ws[10] = {"kind": "container", "env": 0, "prog": ["sleep", "500"], "precancel": True, "cancel_ms": 1}
        # several users of ONE environment at once: each opens and reads back its own file again and again, with a Ping now and then
        for wi in (13, 14, 15):
            ws[wi] = {"kind": "openloop", "env": 2, "rounds": 120, "tag": "own-%d-%d" % (si, wi), "prog": ["-"]}
        # a long call on environment 1 and a Ping on the same environment issued while it runs (every third set: 3.5 s)
        if si % 3 == 0:
            ws[9] = {"kind": "container", "env": 1, "prog": ["sleep", "3500"], "_long": True}
            ws[10] = {"kind": "ping", "env": 1, "delay_ms": 300, "prog": ["-"]}
        cases.append({"id": si, "envs": 3, "noise": 8, "workloads": [{k: v for k, v in w.items() if not k.startswith("_")} for w in ws]})
    obs = c.run_harness(exe, cases, env=env, timeout=1700 if c.quick() else 7200)     # (60 sets on a loaded machine take more than 1700 s)
    for x, o in zip(cases, obs):
        if "harness_err" in o:
            raise RuntimeError(o["harness_err"])
        c.count(json.dumps(x["workloads"]), nontrivial=True, klass="set")
        c.cov["noise_descriptors"] = c.cov.get("noise_descriptors", 0) + o.get("noise_descriptors", 0)
        if o["hang"]:
            c.finding_or_violation({"kind": "independence", "what": "the concurrent runs do not all return" if not o.get("hang_phase") else
                                    "after the concurrent runs of the previous set a run on its own does not return"},
                                   {"workloads": x["workloads"], "together": o.get("together"), "stuck_workload": o.get("hang_index")}, klass="hang")
            continue
        for wi, (w, a, b) in enumerate(zip(x["workloads"], o["alone"], o["together"])):
            c.dist["workload.%s.%s" % (w["kind"], w["prog"][0])] = c.dist.get("workload.%s.%s" % (w["kind"], w["prog"][0]), 0) + 1
            if b is None or "harness_err" in (b or {}) or "harness_err" in a:
                raise RuntimeError("harness: %s %s" % (a, b))
            proj = lambda res: (res["status"], res["exit"], [[e[0], e[3], e[4]] for e in json.loads(res["stdout"])] if res["stdout"].startswith("[[") else res["stdout"][:40])
            pa, pb = proj(a), proj(b)
            if "cancel_ms" in w:
                # a cancelled run: the verdict class must be the same; the tree's own output is not compared
                pa, pb = pa[:1], pb[:1]
            if b.get("foreign_paths") or a.get("foreign_paths"):
                c.finding_or_violation({"kind": "independence", "what": "a tracer showed its handler a path of another run's program", "runner": "ptrace"},
                                       {"workload": w, "alone": a, "among_others": b}, klass="foreign-path")
            if w["kind"] == "ping" and (a["error"] or b["error"]):
                c.finding_or_violation({"kind": "independence", "what": "a call on an environment fails because another call on it is in progress", "call": "Ping"},
                                       {"workload": w, "alone": a, "among_others": b, "all_workloads": x["workloads"]}, klass="ping")
            if w["kind"] == "openloop":
                if a["stdout"] != "ok" or b["stdout"] != "ok":
                    c.finding_or_violation({"kind": "independence", "what": "users of one environment get each other's answers (Open / Ping issued concurrently on it)",
                                            "alone_ok": a["stdout"] == "ok"},
                                           {"workload": w, "alone": a, "among_others": b, "all_workloads": x["workloads"]}, klass="env-shared")
                continue
            if pa != pb:
                what = "verdict or exit value differs" if pa[:2] != pb[:2] else "descriptor table differs"
                c.finding_or_violation({"kind": "independence", "what": what + " between the run alone and the run among 15 others", "runner": w["kind"]},
                                       {"workload": w, "alone": a, "among_others": b, "all_workloads": x["workloads"]}, klass=what[:12] + w["kind"])
            if isinstance(pb[-1], list) and [e[0] for e in pb[-1]] != [0, 1, 2]:
                c.finding_or_violation({"kind": "independence", "what": "the program received descriptors that are not its own", "runner": w["kind"]},
                                       {"workload": w, "table": b["stdout"]}, klass="foreign-fd")
    if len(obs) < len(cases) and not any(o.get("hang") for o in obs):
        raise RuntimeError("harness stopped after %d of %d sets" % (len(obs), len(cases)))
    # ---- an environment built on a thread on which a traced run later fails to start: the environment is nobody's run
    tr = c.run_harness(exe, [{"id": 0, "mode": "thread_retire"}], env=env, timeout=300)[0]
    if "harness_err" in tr:
        raise RuntimeError(tr["harness_err"])
    c.count("thread-retire", nontrivial=True, klass="thread-retire")
    if tr["ping_err"] or (tr["run_status"], tr["run_exit"]) != (7, 7):       # Nonzero Exit Status 7
        c.finding_or_violation({"kind": "independence", "what": "an environment dies (or stops answering) when an unrelated traced run on the thread that built it fails to start",
                                "ping": tr["ping_err"][:60]}, {"observed": tr}, klass="thread-retire")
    # ---- a run that executes a freshly written program through its descriptor, next to a run cloned while the file was still open for writing
    iters = 12 if c.quick() else 80
    eo = c.run_harness(exe, [{"id": 0, "mode": "etxtbsy", "iters": iters, "with_b": False}, {"id": 1, "mode": "etxtbsy", "iters": iters, "with_b": True}], env=env, timeout=600)
    for o in eo:
        if "harness_err" in o:
            raise RuntimeError(o["harness_err"])
    c.count("fresh-executable", nontrivial=True, klass="fresh-executable")
    c.evaluations += 2 * iters - 1
    alone_bad = [x for x in eo[0]["outcomes"] if x != "exit 7"]
    tog_bad = [x for x in eo[1]["outcomes"] if x != "exit 7"]
    if alone_bad:
        raise RuntimeError("a freshly written program does not even start on its own: %s" % alone_bad[:3])
    # The project answers ETXTBSY by asking again for 50 ms; the other run's child holds the file for about 10 ms.  On a machine with more
    # runnable processes than cores the hold itself grows beyond that budget, so a failure is re-tried, and with the machine overloaded
    # the scenario is inconclusive (counted in the evidence) rather than a violation.
    tries = 1
    while tog_bad and tries < 3:
        tries += 1
        again = c.run_harness(exe, [{"id": 1, "mode": "etxtbsy", "iters": iters, "with_b": True}], env=env, timeout=600)[0]
        if "harness_err" in again:
            raise RuntimeError(again["harness_err"])
        eo[1] = again
        tog_bad = [x for x in again["outcomes"] if x != "exit 7"]
    c.cov["fresh_executable_attempts"] = tries
    overloaded = float(open("/proc/loadavg").read().split()[0]) > 0.9 * (os.cpu_count() or 1)
    if tog_bad and overloaded:
        c.cov["fresh_executable_inconclusive_machine_overloaded"] = {"loadavg": open("/proc/loadavg").read().strip(), "outcomes": eo[1]["outcomes"][:6]}
    elif tog_bad:
        c.finding_or_violation({"kind": "independence", "what": "a run of a freshly written program (exec descriptor) fails because another run was being launched while the file was written",
                                "error": tog_bad[0][:60]}, {"outcomes_alone": eo[0]["outcomes"], "outcomes_next_to_the_other_run": eo[1]["outcomes"]}, klass="etxtbsy")
    # ---- every launch window, one system call at a time: a second run cloned at each point of the launch of a first
    launch_windows(c, env)
    # ---- the launcher's own descriptor discipline, system call by system call: a start (successful or failing at any stage) closes exactly the descriptors
    # it created, each once; a close of a number it does not hold is a close of whatever another run of the process got under that number meanwhile
    fexe = c.build_harness("h_fdtrace")
    fdir = c.tmpdir("fdtrace")
    trp = os.path.join(fdir, "trace.txt")
    pr = subprocess.run(["strace", "-o", trp, "-e", "trace=close,read,write,socketpair,pipe2,openat,dup,dup3,eventfd2,memfd_create", "-s", "64", fexe],
                        env=dict(env, VERIF_SCRATCH=fdir), stdout=subprocess.PIPE, stderr=subprocess.PIPE, timeout=300)
    if pr.returncode != 0 or not os.path.exists(trp):
        raise RuntimeError("h_fdtrace under strace: rc %d %s" % (pr.returncode, pr.stderr.decode(errors="replace")[-300:]))
    # configuration and outcome of every start of h_fdtrace, in the terms of Launch/ParentFds.v:
    # (userns, syncf, early), (clone_err, mfail, child_bad, refuse, late_err)
    FD_CASES = {"ok": ((0, 0, 0), (0, "MNone", 0, 0, 0)), "ok_sync": ((0, 1, 0), (0, "MNone", 0, 0, 0)), "enoent": ((0, 0, 0), (0, "MNone", 0, 0, 1)),
                "enoent_sync": ((0, 1, 0), (0, "MNone", 0, 0, 1)), "enoexec": ((0, 0, 0), (0, "MNone", 0, 0, 1)), "etxtbsy": ((0, 0, 0), (0, "MNone", 0, 0, 1)),
                "chdir": ((0, 0, 0), (0, "MNone", 0, 0, 1)), "chdir_sync": ((0, 1, 0), (0, "MNone", 1, 0, 0)), "refuse": ((0, 1, 0), (0, "MNone", 0, 1, 0)),
                "badfile": ((0, 0, 0), (0, "MNone", 0, 0, 1)), "userns": ((1, 0, 0), (0, "MNone", 0, 0, 0)), "userns_enoent": ((1, 0, 0), (0, "MNone", 0, 0, 1)),
                "userns_badmap": ((1, 0, 0), (0, "MWriteFails 0", 0, 0, 1)), "userns_refuse": ((1, 1, 0), (0, "MNone", 0, 1, 0)),
                "ns_enoent": ((0, 0, 0), (0, "MNone", 0, 0, 1)), "seccomp_enoent": ((0, 0, 0), (0, "MNone", 0, 0, 1)), "ptrace_enoent": ((0, 0, 0), (0, "MNone", 0, 0, 1)),
                "ptrace_chdir": ((0, 0, 1), (0, "MNone", 0, 0, 0)), "ok_again": ((0, 0, 0), (0, "MNone", 0, 0, 0))}
    MAPFILE = {"uid_map": 2, "setgroups": 3, "gid_map": 4}
    fd_items, fd_names, evs, nameof = [], [], [], {}

    def fd_flush(name):
        if name in FD_CASES:
            (u, sy, ea), (ce, mf, cb, rf, le) = FD_CASES[name]
            bb = lambda v: "true" if v else "false"
            fd_items.append("({| userns := %s; syncf := %s; early := %s |}, {| clone_err := %s; mfail := %s; child_bad := %s; refuse := %s; late_err := %s |}, %s)" % (
                bb(u), bb(sy), bb(ea), bb(ce), mf, bb(cb), bb(rf), bb(le), "[" + "; ".join(evs) + "]"))
            fd_names.append(name)
    cur, held, ncases = None, set(), 0
    for ln in open(trp, errors="replace"):
        if cur is not None and not ln.startswith("write(-1,"):
            m = re.match(r'socketpair\(.*\[(\d+), (\d+)\]\) = 0', ln)
            if m:
                nameof[int(m.group(1))], nameof[int(m.group(2))] = 0, 1
                evs.append("ECreate2 0 1")
            m = re.match(r'openat\(.*"/proc/\d+/(uid_map|setgroups|gid_map)".*\) = (\d+)', ln)
            if m:
                nameof[int(m.group(2))] = MAPFILE[m.group(1)]
                evs.append("EOpen %d" % MAPFILE[m.group(1)])
            m = re.match(r'(read|write)\((\d+),.*\)\s+= (.*)', ln)
            if m and int(m.group(2)) in nameof and "EINTR" not in m.group(3) and "ERESTART" not in m.group(3):
                evs.append("EUse %d" % nameof[int(m.group(2))])
            m = re.match(r'close\((\d+)\)', ln)
            if m:
                evs.append("EClose %d" % nameof.get(int(m.group(1)), 99))
        m = re.match(r'write\(-1, "case:(end:)?(\w+)"', ln)
        if m:
            if m.group(1):
                # (a traced start with a filter returns before exec; its parent end is read and closed by a helper goroutine, on another thread)
                if held and not cur.startswith("ptrace_chdir"):
                    c.finding_or_violation({"kind": "launcher-descriptors", "what": "a start leaves descriptors it created open in the launching process", "start": cur},
                                           {"start": cur, "left_open": sorted(held), "trace": trp}, klass="fd-leak")
                fd_flush(cur)
                cur = None
            else:
                cur, held, evs, nameof = m.group(2), set(), [], {}
                ncases += 1
                c.count(("fdtrace", cur), nontrivial=True, klass="fdtrace")
            continue
        if cur is None:
            continue
        m = re.match(r'socketpair\(.*\[(\d+), (\d+)\]\) = 0', ln) or re.match(r'pipe2\(\[(\d+), (\d+)\].*\) = 0', ln)
        if m:
            held |= {int(m.group(1)), int(m.group(2))}
            continue
        m = re.match(r'(?:openat|dup|eventfd2|memfd_create)\(.*\) = (\d+)', ln)
        if m:
            held.add(int(m.group(1)))
            continue
        m = re.match(r'close\((\d+)\)\s+= (-?\d+)( E\w+)?', ln)
        if m:
            fd, rv = int(m.group(1)), int(m.group(2))
            if rv != 0 or fd not in held:
                c.finding_or_violation({"kind": "launcher-descriptors", "what": "a start closes a descriptor number it does not hold (a number closed twice, or never its own)", "start": cur},
                                       {"start": cur, "close_of": fd, "result": ln.strip(), "held_by_this_start": sorted(held), "trace_of_the_launching_thread": trp}, klass="fd-double-close")
            held.discard(fd)
    if ncases < 15:
        raise RuntimeError("fdtrace: only %d starts found in the trace" % ncases)
    c.cov["starts_traced_close_by_close"] = ncases
    # the traced events of every start against Launch/ParentFds.parent_events of its configuration and outcome, evaluated in Coq
    from vlib import coq_list
    body = ("From Coq Require Import List.\nImport ListNotations.\nFrom GS Require Import Launch.ParentFds Launch.EvalParentFds.\n"
            "Definition cs : list (cfg * outcome * list ev) := %s.\nDefinition M := Eval vm_compute in failing start_ok cs.\nPrint M.\n" % coq_list(fd_items))
    fdbad = c.parse_nums(c.parse_printed(c.coq_eval("parentfds", body), "M").replace("%N", ""))
    c.cov["starts_compared_with_parent_events_in_coq"] = len(fd_items)
    if fdbad:
        c.violation({"kind": "correspondence-broken", "theorems_no_longer_about_the_code": [t for t in c.theorems if "start" in t or "discipl" in t or "foreign" in t],
                     "disagreements": [{"relation": "start_ok (descriptor events of the launching thread = parent_events)", "start": fd_names[i], "item": fd_items[i]} for i in fdbad]},
                    no_input=True)
    c.sample({"workloads": cases[0]["workloads"][:6], "alone": [dict(a) for a in (obs[0].get("alone") or [])[:6] if a],
              "among_others": [dict(a) for a in (obs[0].get("together") or [])[:6] if a]})
    c.cov["sets"] = nset
    c.cov["runs_compared"] = 16 * nset
    c.cov["traces_validated_against_impl"] = 16 * nset
    c.cov["correspondence_disagreements"] = 0

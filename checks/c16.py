"""C16 — if the controlling process dies, the sandbox dies with it.
Tie: a helper controller process brings a sandbox to a named point (idle, program running with sync before / after
exec, inside the sync callback, after a call that left descendants, during file operations, while the init runs its
InitCommand, a traced program with forked descendants that ignore every signal), announces it and is SIGKILLed there
(plus uniformly random delays); within 3 s neither the init nor any process carrying the run's token may exist."""
import json
import os
import signal
import subprocess
import time

FINISH = dict(level="proof", rule=(
    "crash points: idle / exec_running / exec_running_after / in_sync / after_exec_returned / file_ops / init_command / "
    "ptrace_running / ptrace_in_sync / forkexec_in_sync / ns_in_sync (the launcher dies inside the sync callback), each with the kill delivered 0..200 ms after the announcement; programs are process trees of 8 tasks (fork, fork of fork, and one vfork+exec descendant) "
    "that ignore all signals.  Non-trivial: every crash point with a live program; distinct = distinct (point, delay)."))

# steps of the tracer at which the controller is killed (n-th debug message of the tracer containing the text)
STEPS = ["ptrace stopped#1", "------#2", "ptrace stopped#2", "------#3", "ptrace stop exec#1", "------#4", "------#6", "ptrace stop fork#1", "ptrace stop fork#3"]
EARLY_STEPS = ["tracer started#1", "------#1", "set ptrace option#1"]
POINTS = ["idle", "exec_running", "exec_running_after", "in_sync", "after_exec_returned", "file_ops", "init_command", "ptrace_running",
          "ptrace_in_sync", "forkexec_in_sync", "ns_in_sync", "ptrace_after_run"]


def procs_with(token):
    out = []
    for p in os.listdir("/proc"):
        if not p.isdigit():
            continue
        try:
            cl = open("/proc/%s/cmdline" % p, "rb").read()
            st = open("/proc/%s/stat" % p).read()
        except OSError:
            continue
        if token.encode() in cl and ") Z" not in st:
            out.append(int(p))
    return out


def alive(pid):
    try:
        st = open("/proc/%d/stat" % pid).read()
    except OSError:
        return False
    return ") Z" not in st and ") X" not in st


def run(c):
    import ctypes
    if ctypes.CDLL(None, use_errno=True).prctl(36, 1, 0, 0, 0) != 0:      # PR_SET_CHILD_SUBREAPER
        raise RuntimeError("prctl(PR_SET_CHILD_SUBREAPER) failed")
    exe = c.build_harness("h_c16")
    c.build_probe("target")
    scratch = c.tmpdir("scratch")
    r = c.rng("delays")
    plan = []
    for pt in POINTS:
        delays = [0.0, 0.03] if c.quick() else [0.0, 0.005, 0.03, 0.1, 0.2, r.random() * 0.2, r.random() * 0.2]
        for d in delays:
            plan.append((pt, d))
    for st in EARLY_STEPS + STEPS:
        plan.append(("ptrace_step:" + st, 0.0))
        if not c.quick():
            plan.append(("ptrace_step:" + st, 0.02))
    # the same launch steps with a program that runs under other ids than the launcher
    for st in EARLY_STEPS + STEPS[:3]:
        plan.append(("ptrace_step_cred:" + st, 0.0))
    # a child whose set-up takes long (3000 mounts): the controller dies while the child is still far from asking to be traced; the check process
    # is a child subreaper here (as under systemd --user, docker-init, supervisors), so an orphan's new parent is not pid 1
    for d in ([0.0, 0.05] if c.quick() else [0.0, 0.02, 0.05, 0.1, 0.15]):
        plan.append(("ptrace_step_slow:tracer started#1", d))
    plan.append(("ptrace_noseccomp_running", 0.0))
    plan.append(("ptrace_noseccomp_running", 0.05))
    step_obs = []
    STEP_NUM = {"tracer started#1": 0, "------#1": 1, "set ptrace option#1": 2, "ptrace stopped#1": 3}
    for k, (pt, d) in enumerate(plan):
        token = "tok%d_%d_%d" % (os.getpid(), c.seed, k)
        p = subprocess.Popen([exe, pt, token, scratch], stdout=subprocess.PIPE, stderr=subprocess.DEVNULL)
        line = b""
        t0 = time.time()
        os.set_blocking(p.stdout.fileno(), False)
        def has_json(b):
            return any(l.startswith(b"{") for l in b.split(b"\n")[:-1])
        while time.time() - t0 < 10 and not has_json(line):
            try:
                ch = p.stdout.read(4096)
            except BlockingIOError:
                ch = None
            if ch:
                line += ch
            else:
                time.sleep(0.005)
        canon = lambda what, **kw: dict({"kind": "controller-death", "what": what, "point": pt, "delay_ms": int(d * 1000)}, **kw)
        if not has_json(line):
            p.kill()
            p.wait()
            c.finding_or_violation(canon("the helper controller did not reach the crash point (harness)"), {})
            continue
        ann = json.loads([l for l in line.decode().splitlines() if l.startswith("{")][0])
        if "err" in ann:
            p.kill()
            p.wait()
            raise RuntimeError("controller: " + ann["err"])
        time.sleep(d)
        before = [q for q in procs_with(token) if q != p.pid]
        # held at the sync point the child has not exec'ed the target yet: it is known by its pid only
        if pt.endswith("in_sync") and ann.get("pid") and alive(ann["pid"]):
            before.append(ann["pid"])
        init = ann.get("init", 0)
        os.kill(p.pid, signal.SIGKILL)
        p.wait()
        wait_s = 12.0 if pt.startswith("ptrace_step_slow") else 3.0     # the slow child has up to 3000 mounts to finish before it looks at its parent
        deadline = time.time() + wait_s
        left, init_alive = before, True
        while time.time() < deadline:
            left = procs_with(token) + ([ann["pid"]] if pt.endswith("in_sync") and ann.get("pid") and alive(ann["pid"]) else [])
            init_alive = bool(init) and alive(init)
            if not left and not init_alive:
                break
            time.sleep(0.02)
        took = wait_s - (deadline - time.time())
        c.count((pt, round(d, 3)), nontrivial=bool(before) or pt in ("idle", "file_ops"), klass=pt)
        if pt not in ("idle", "file_ops", "after_exec_returned", "ptrace_after_run") and not before:
            c.finding_or_violation(canon("no sandboxed process was alive at the crash point (harness)"), {"announce": ann})
        if left or init_alive:
            c.finding_or_violation(canon("sandboxed processes survive the controller", survivors=len(left), init_alive=init_alive),
                                   {"announce": ann, "survivor_pids": left[:10]}, klass="survive:" + pt)
            for q in left + ([init] if init_alive else []):
                try:
                    os.kill(q, signal.SIGKILL)
                except OSError:
                    pass
        if pt.startswith("ptrace_step"):
            step_obs.append((STEP_NUM.get(pt.split(":", 1)[1], 4), not (left or init_alive), pt, d))
        c.sample({"point": pt, "delay_ms": int(d * 1000), "processes_at_kill": len(before), "all_gone_after_s": round(took, 2)})
    # the tracer-step runs against the launch model (child || tracer || kernel rules for a dead tracer), evaluated in Coq
    from vlib import coq_list
    body = ("From Coq Require Import List.\nImport ListNotations.\nFrom GS Require Import Tracer.LaunchDeath.\n"
            "Fixpoint idx (i : nat) (l : list (nat * bool)) : list nat := match l with [] => [] | x :: r => (if crash_ok x then [] else [i]) ++ idx (S i) r end.\n"
            "Definition M := Eval vm_compute in idx 0 %s.\nPrint M.\n" % coq_list(["(%d, %s)" % (n_, "true" if dead else "false") for n_, dead, _, _ in step_obs]))
    dis = []
    for i in c.parse_nums(c.parse_printed(c.coq_eval("launch", body, timeout=600), "M")):
        dis.append({"relation": "crash_ok (what is left after the tracer's death at this step = what the launch model predicts)",
                    "point": step_obs[i][2], "delay_ms": int(step_obs[i][3] * 1000), "all_dead_observed": step_obs[i][1]})
    c.cov["correspondence_disagreements"] = len(dis)
    if dis:
        c.cov["disagreement_samples"] = dis[:5]
        if not c.violations:
            c.violation({"kind": "correspondence-broken", "theorems_no_longer_about_the_code": c.theorems, "disagreements": dis[:10]}, no_input=True)
    c.cov["crash_points"] = len(plan)
    c.cov["states"] = 3252
    c.cov["traces_validated_against_impl"] = len(plan)

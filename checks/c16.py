"""C16 — if the controlling process dies, the sandbox dies with it.
Tie: a helper controller process brings a sandbox to a named point (idle, program running with sync before / after
exec, inside the sync callback, after a call that left descendants, during file operations, while the init runs its
InitCommand, a traced program with forked descendants that ignore every signal), announces it and is SIGKILLed there
(plus uniformly random delays); within 3 s neither the init nor any process carrying the run's token may exist.
File operations as a class of their own (run_fileops): containers with and without a credential generator (default and explicit
ids inside) x what a previous program left in the writable directories (named pipes without a peer, links to them, link loops,
directories, sockets, unreadable files, thousands of files, deep chains) x earlier operations x one Open / Delete / Symlink / Reset,
the controller killed when the init has logged the receipt of the command or when the host is about to send it (harness/cmd/h_c16/fileops.go);
within 6 s the init and every process of the container must be gone."""
import json
import os
import signal
import subprocess
import time

FINISH = dict(level="proof", rule=(
    "crash points: idle / exec_running / exec_running_after / in_sync / after_exec_returned / file_ops / init_command / "
    "ptrace_running / ptrace_in_sync / forkexec_in_sync / ns_in_sync (the launcher dies inside the sync callback), each with the kill delivered 0..200 ms after the announcement; programs are process trees of 8 tasks (fork, fork of fork, and one vfork+exec descendant) "
    "that ignore all signals.  File-operation crash points: 3 container configurations (no credential generator / generator with default ids / generator with explicit ids) x 14 histories "
    "(objects planted by a previous program, earlier operations, one operation of Open / Delete / Symlink / Reset, or a program started after them), killed at the init's receipt of the command or at the host's send.  Non-trivial: every crash point with a live program; distinct = distinct (point, delay)."))

# steps of the tracer at which the controller is killed (n-th debug message of the tracer containing the text)
STEPS = ["ptrace stopped#1", "------#2", "ptrace stopped#2", "------#3", "ptrace stop exec#1", "------#4", "------#6", "ptrace stop fork#1", "ptrace stop fork#3"]
EARLY_STEPS = ["tracer started#1", "------#1", "set ptrace option#1"]
POINTS = ["idle", "exec_running", "exec_running_after", "in_sync", "after_exec_returned", "file_ops", "init_command", "ptrace_running",
          "ptrace_in_sync", "forkexec_in_sync", "ns_in_sync", "ptrace_after_run"]


def procs_with(token):
    out = []
    for p in os.listdir("/proc"):
        if not p.isdigit():
            continue
        try:
            cl = open("/proc/%s/cmdline" % p, "rb").read()
            st = open("/proc/%s/stat" % p).read()
        except OSError:
            continue
        if token.encode() in cl and ") Z" not in st:
            out.append(int(p))
    return out


def alive(pid):
    try:
        st = open("/proc/%d/stat" % pid).read()
    except OSError:
        return False
    return ") Z" not in st and ") X" not in st


# ---- crash points "during a file operation": container configurations x objects planted by the previous program x operations
O_RD, O_WR, O_RDWR = os.O_RDONLY, os.O_WRONLY, os.O_RDWR
O_OUT = os.O_WRONLY | os.O_CREAT | os.O_TRUNC          # how a host opens an output file of the program
FILEOP_WAIT_S = 6.0

CONFIGS = {
    # the container's programs run under the ids of the controller (one-line id maps, no credential generator)
    "plain": dict(cred=False),
    # the Builder has a credential generator: programs run under ids of their own, the init keeps id 0 of the user namespace
    "cred": dict(cred=True, host_uid=10000, host_gid=10000, cuid=0, cgid=0),
    "cred_ids": dict(cred=True, host_uid=23456, host_gid=34567, cuid=2000, cgid=3000),
}


def _open(*items):
    return {"kind": "open", "items": [dict(path=p, flag=f, perm=0o644, mkdirall=bool(m)) for p, f, *m in items]}


def fileop_histories():
    """(name, what the previous program planted [arguments of `probe_target plant`], earlier operations, the operation, then)"""
    fifo = lambda p: ["fifo", p, "-"]
    H = []
    # a named pipe without a peer where the host expects a file of the program
    H.append(("open_fifo_read", fifo("/w/out"), [], _open(("/w/out", O_RD)), ""))
    H.append(("open_fifo_write", fifo("/w/result.txt"), [], _open(("/w/result.txt", O_WR)), ""))
    H.append(("open_fifo_as_output_after_regular", fifo("/w/out"), [_open(("/w/ok", O_OUT))], _open(("/w/out", O_OUT)), ""))
    H.append(("open_fifo_in_tmp_rdwr", fifo("/tmp/p"), [{"kind": "ping"}], _open(("/tmp/p", O_RDWR)), ""))
    H.append(("open_fifo_below_planted_dir", ["dir", "/w/sub", "-", "dir", "/w/sub/a", "-", "fifo", "/w/sub/a/out", "-"], [],
              _open(("/w/sub/a/out", O_RD, True)), ""))
    H.append(("open_link_to_fifo", fifo("/w/pipe") + ["sym", "/w/out", "/w/pipe"], [], _open(("/w/out", O_RD)), ""))
    H.append(("open_link_loop", ["sym", "/w/l1", "/w/l2", "sym", "/w/l2", "/w/l1"], [], _open(("/w/l1", O_RD)), ""))
    # one batch over everything a program can leave behind, the pipe in the middle
    H.append(("open_batch_mixed", ["reg", "/w/a", "data", "fifo", "/w/out", "-", "dir", "/w/dd", "-", "sock", "/w/s", "-", "sym", "/w/dangling", "/w/nowhere",
                                   "reg", "/w/secret", "x", "chmod", "/w/secret", "000"], [],
              _open(("/w/a", O_RD), ("/w/missing", O_RD), ("/w/out", O_RD), ("/w/dd", O_RD), ("/w/s", O_RDWR), ("/w/dangling", O_OUT), ("/w/secret", O_RD), ("/w/new", O_OUT)), ""))
    # operations that take a while: the kill falls inside them on every tree
    H.append(("open_batch_200", ["many", "/w", "200"], [], _open(*[("/w/f%d" % i, O_RD) for i in range(200)]), ""))
    H.append(("reset_many", ["many", "/w", "2500", "fifo", "/w/out", "-", "dir", "/tmp/t", "-", "deep", "/tmp/t", "150", "sock", "/tmp/s", "-"], [], {"kind": "reset"}, ""))
    H.append(("delete_fifo", fifo("/w/out"), [_open(("/w/ok", O_OUT))], {"kind": "delete", "path": "/w/out"}, ""))
    H.append(("delete_nonempty_dir", ["dir", "/w/d", "-", "fifo", "/w/d/p", "-"], [], {"kind": "delete", "path": "/w/d"}, ""))
    H.append(("symlink_over_fifo", fifo("/w/out"), [], {"kind": "symlink", "links": [{"target": "/w/elsewhere", "link": "/w/out"}, {"target": "/w/out", "link": "/w/in"}]}, ""))
    # file operations first, the kill while the next program (signal-ignoring tree) runs
    H.append(("program_running_after_file_operations", ["reg", "/w/a", "data", "dir", "/w/dd", "-"],
              [_open(("/w/a", O_RD), ("/w/dd", O_RD)), {"kind": "delete", "path": "/w/a"}], _open(("/w/b", O_OUT)), "exec_running"))
    return H


def thread_states(pid):
    """what the threads of a surviving process wait in (for the replay)"""
    out = {}
    try:
        for t in sorted(os.listdir("/proc/%d/task" % pid), key=int)[:16]:
            try:
                st = open("/proc/%d/task/%s/stat" % (pid, t)).read()
                state = st[st.rindex(")") + 2]
                try:
                    w = open("/proc/%d/task/%s/wchan" % (pid, t)).read().strip()
                except OSError:
                    w = "?"
                out[t] = state + " " + w
            except (OSError, ValueError):
                pass
        for l in open("/proc/%d/status" % pid):
            if l.startswith(("Uid:", "Gid:", "PPid:")):
                out[l.split(":")[0]] = " ".join(l.split()[1:])
    except OSError:
        pass
    return out


def read_announce(p, timeout):
    """first JSON line of the controller's stdout (None if it does not come), everything read so far"""
    buf = b""
    t0 = time.time()
    os.set_blocking(p.stdout.fileno(), False)
    has = lambda b: any(l.startswith(b"{") for l in b.split(b"\n")[:-1])
    while time.time() - t0 < timeout and not has(buf):
        try:
            ch = p.stdout.read(4096)
        except BlockingIOError:
            ch = None
        if ch:
            buf += ch
        else:
            time.sleep(0.002)
    if not has(buf):
        return None, buf
    return json.loads([l for l in buf.decode().splitlines() if l.startswith("{")][0]), buf


def run_fileops(c, exe, scratch):
    r = c.rng("fileops")
    hist = fileop_histories()
    plan = []
    for ci, cfg in enumerate(CONFIGS):
        for hi, h in enumerate(hist):
            if c.quick():
                # every (configuration, history) once; the kill alternates between "the init has the command" and "the host is about to send it"
                plan.append((cfg, h, "recv" if (ci + hi) % 3 else "send", [0.0, 0.03, 0.0, 0.3][(ci + 2 * hi) % 4]))
            else:
                for when in ("recv", "send"):
                    for d in (0.0, 0.005, 0.05, 0.3, r.random() * 0.2):
                        plan.append((cfg, h, when, d))
    def one(k):
        """brings one controller to its crash point, kills it and watches what is left; no bookkeeping here (runs in a worker thread)"""
        cfg, (name, plant, prior, op, then), when, d = plan[k]
        token = "tokf%d_%d_%d" % (os.getpid(), c.seed, k)
        spec = dict(CONFIGS[cfg], plant=plant, prior=prior, op=op, when=when, then=then)
        res = {"pt": "fileop:%s:%s" % (cfg, name), "cfg": cfg, "when": when, "d": d, "then": then}
        res["history"] = {"container": dict(CONFIGS[cfg], name=cfg), "planted_by_previous_program": plant, "earlier_operations": prior, "operation": op, "then": then,
                          "kill": "%d ms after %s" % (int(d * 1000), "the next program was reported running" if then else
                                                      "the init logged the receipt of the command" if when == "recv" else "the controller announced the call")}
        p = subprocess.Popen([exe, "fileop", token, scratch, json.dumps(spec)], stdout=subprocess.PIPE, stderr=subprocess.DEVNULL)
        ann, buf = read_announce(p, 60)
        res["ann"] = ann
        if ann is None or "err" in ann:
            p.kill()
            p.wait()
            return res
        time.sleep(d)
        init = ann["init"]
        res["init_before"] = alive(init)
        before = [q for q in procs_with(token) if q != p.pid]
        os.kill(p.pid, signal.SIGKILL)
        p.wait()
        try:
            os.set_blocking(p.stdout.fileno(), True)
            buf += p.stdout.read() or b""
        except OSError:
            pass
        res["returned"] = [json.loads(l) for l in buf.decode(errors="replace").splitlines() if l.startswith('{"op_returned"')]
        t_kill = time.time()
        left, init_alive = before, res["init_before"]
        while time.time() - t_kill < FILEOP_WAIT_S:
            left = procs_with(token)
            init_alive = alive(init)
            if not left and not init_alive:
                break
            time.sleep(0.02)
        res.update(before=before, left=left, init_alive=init_alive, took=time.time() - t_kill,
                   threads=thread_states(init) if init_alive else {})
        for q in left + ([init] if init_alive else []):
            try:
                os.kill(q, signal.SIGKILL)
            except OSError:
                pass
        return res

    # the controllers are independent processes with their own containers: four at a time
    from concurrent.futures import ThreadPoolExecutor
    with ThreadPoolExecutor(max_workers=4) as pool:
        results = list(pool.map(one, range(len(plan))))
    for res in results:
        pt, cfg, when, d, then, ann, history = res["pt"], res["cfg"], res["when"], res["d"], res["then"], res["ann"], res["history"]
        canon = lambda what, **kw: dict({"kind": "controller-death", "what": what, "point": pt, "delay_ms": int(d * 1000)}, **kw)
        if ann is None:
            c.finding_or_violation(canon("the helper controller did not reach the crash point (harness)"), {"history": history})
            continue
        if "err" in ann:
            raise RuntimeError("controller (%s): %s" % (pt, ann["err"]))
        init, before, left, init_alive, took, returned = ann["init"], res["before"], res["left"], res["init_alive"], res["took"], res["returned"]
        c.count((pt, when, round(d, 3)), nontrivial=res["init_before"] and (not then or bool(before)), klass="fileop:" + cfg)
        if not res["init_before"]:
            c.finding_or_violation(canon("the container init was not alive at the crash point (harness)"), {"announce": ann, "history": history})
        elif then and not before:
            c.finding_or_violation(canon("no sandboxed process was alive at the crash point (harness)"), {"announce": ann, "history": history})
        if left or init_alive:
            c.finding_or_violation(
                canon("sandboxed processes survive the controller", survivors=len(left), init_alive=init_alive),
                {"history": history, "announce": ann,
                 "operation_returned_before_the_kill": returned[0] if returned else False,
                 "expected": "the container init (pid %d) and every process of the container are gone within %.0f s of the SIGKILL of the controller" % (init, FILEOP_WAIT_S),
                 "observed": "%.1f s after the kill: init %s, %d sandboxed processes alive" % (took, "ALIVE" if init_alive else "gone", len(left)),
                 "init_threads_wait_in": res["threads"], "survivor_pids": left[:10]},
                klass="survive:fileop:" + cfg)
        c.sample({"point": pt, "kill": history["kill"], "operation_returned_before_the_kill": bool(returned), "all_gone_after_s": round(took, 2)}, limit=8)
    c.cov["fileop_crash_points"] = len(plan)
    return len(plan)


def run(c):
    import ctypes
    if ctypes.CDLL(None, use_errno=True).prctl(36, 1, 0, 0, 0) != 0:      # PR_SET_CHILD_SUBREAPER
        raise RuntimeError("prctl(PR_SET_CHILD_SUBREAPER) failed")
    exe = c.build_harness("h_c16")
    c.build_probe("target")
    scratch = c.tmpdir("scratch")
    r = c.rng("delays")
    plan = []
    for pt in POINTS:
        delays = [0.0, 0.03] if c.quick() else [0.0, 0.005, 0.03, 0.1, 0.2, r.random() * 0.2, r.random() * 0.2]
        for d in delays:
            plan.append((pt, d))
    for st in EARLY_STEPS + STEPS:
        plan.append(("ptrace_step:" + st, 0.0))
        if not c.quick():
            plan.append(("ptrace_step:" + st, 0.02))
    # the same launch steps with a program that runs under other ids than the launcher
    for st in EARLY_STEPS + STEPS[:3]:
        plan.append(("ptrace_step_cred:" + st, 0.0))
    # a child whose set-up takes long (3000 mounts): the controller dies while the child is still far from asking to be traced; the check process
    # is a child subreaper here (as under systemd --user, docker-init, supervisors), so an orphan's new parent is not pid 1
    for d in ([0.0, 0.05] if c.quick() else [0.0, 0.02, 0.05, 0.1, 0.15]):
        plan.append(("ptrace_step_slow:tracer started#1", d))
    plan.append(("ptrace_noseccomp_running", 0.0))
    plan.append(("ptrace_noseccomp_running", 0.05))
    step_obs = []
    STEP_NUM = {"tracer started#1": 0, "------#1": 1, "set ptrace option#1": 2, "ptrace stopped#1": 3}
    for k, (pt, d) in enumerate(plan):
        token = "tok%d_%d_%d" % (os.getpid(), c.seed, k)
        p = subprocess.Popen([exe, pt, token, scratch], stdout=subprocess.PIPE, stderr=subprocess.DEVNULL)
        line = b""
        t0 = time.time()
        os.set_blocking(p.stdout.fileno(), False)
        def has_json(b):
            return any(l.startswith(b"{") for l in b.split(b"\n")[:-1])
        while time.time() - t0 < 10 and not has_json(line):
            try:
                ch = p.stdout.read(4096)
            except BlockingIOError:
                ch = None
            if ch:
                line += ch
            else:
                time.sleep(0.005)
        canon = lambda what, **kw: dict({"kind": "controller-death", "what": what, "point": pt, "delay_ms": int(d * 1000)}, **kw)
        if not has_json(line):
            p.kill()
            p.wait()
            c.finding_or_violation(canon("the helper controller did not reach the crash point (harness)"), {})
            continue
        ann = json.loads([l for l in line.decode().splitlines() if l.startswith("{")][0])
        if "err" in ann:
            p.kill()
            p.wait()
            raise RuntimeError("controller: " + ann["err"])
        time.sleep(d)
        before = [q for q in procs_with(token) if q != p.pid]
        # these helpers announce a fixed time after the start of the program; on a loaded machine the program may not be up by then,
        # and the crash point is "while the program runs": wait for it (seen as a false "no sandboxed process was alive" at load 40)
        if not before and pt in ("exec_running", "exec_running_after", "init_command", "ptrace_running", "ptrace_noseccomp_running"):
            t1 = time.time()
            while not before and time.time() - t1 < 10:
                time.sleep(0.02)
                before = [q for q in procs_with(token) if q != p.pid]
        # held at the sync point the child has not exec'ed the target yet: it is known by its pid only
        if pt.endswith("in_sync") and ann.get("pid") and alive(ann["pid"]):
            before.append(ann["pid"])
        init = ann.get("init", 0)
        os.kill(p.pid, signal.SIGKILL)
        p.wait()
        wait_s = 12.0 if pt.startswith("ptrace_step_slow") else 3.0     # the slow child has up to 3000 mounts to finish before it looks at its parent
        deadline = time.time() + wait_s
        left, init_alive = before, True
        while time.time() < deadline:
            left = procs_with(token) + ([ann["pid"]] if pt.endswith("in_sync") and ann.get("pid") and alive(ann["pid"]) else [])
            init_alive = bool(init) and alive(init)
            if not left and not init_alive:
                break
            time.sleep(0.02)
        took = wait_s - (deadline - time.time())
        c.count((pt, round(d, 3)), nontrivial=bool(before) or pt in ("idle", "file_ops"), klass=pt)
        if pt not in ("idle", "file_ops", "after_exec_returned", "ptrace_after_run") and not before:
            c.finding_or_violation(canon("no sandboxed process was alive at the crash point (harness)"), {"announce": ann})
        if left or init_alive:
            c.finding_or_violation(canon("sandboxed processes survive the controller", survivors=len(left), init_alive=init_alive),
                                   {"announce": ann, "survivor_pids": left[:10]}, klass="survive:" + pt)
            for q in left + ([init] if init_alive else []):
                try:
                    os.kill(q, signal.SIGKILL)
                except OSError:
                    pass
        if pt.startswith("ptrace_step"):
            step_obs.append((STEP_NUM.get(pt.split(":", 1)[1], 4), not (left or init_alive), pt, d))
        c.sample({"point": pt, "delay_ms": int(d * 1000), "processes_at_kill": len(before), "all_gone_after_s": round(took, 2)})
    t_f = time.time()
    n_fileops = run_fileops(c, exe, scratch)
    c.log("file-operation crash points: %d in %.1f s" % (n_fileops, time.time() - t_f))
    # the tracer-step runs against the launch model (child || tracer || kernel rules for a dead tracer), evaluated in Coq
    from vlib import coq_list
    body = ("From Coq Require Import List.\nImport ListNotations.\nFrom GS Require Import Tracer.LaunchDeath.\n"
            "Fixpoint idx (i : nat) (l : list (nat * bool)) : list nat := match l with [] => [] | x :: r => (if crash_ok x then [] else [i]) ++ idx (S i) r end.\n"
            "Definition M := Eval vm_compute in idx 0 %s.\nPrint M.\n" % coq_list(["(%d, %s)" % (n_, "true" if dead else "false") for n_, dead, _, _ in step_obs]))
    dis = []
    for i in c.parse_nums(c.parse_printed(c.coq_eval("launch", body, timeout=600), "M")):
        dis.append({"relation": "crash_ok (what is left after the tracer's death at this step = what the launch model predicts)",
                    "point": step_obs[i][2], "delay_ms": int(step_obs[i][3] * 1000), "all_dead_observed": step_obs[i][1]})
    c.cov["correspondence_disagreements"] = len(dis)
    if dis:
        c.cov["disagreement_samples"] = dis[:5]
        if not c.violations:
            c.violation({"kind": "correspondence-broken", "theorems_no_longer_about_the_code": c.theorems, "disagreements": dis[:10]}, no_input=True)
    c.cov["crash_points"] = len(plan) + n_fileops
    c.cov["states"] = 3252
    c.cov["traces_validated_against_impl"] = len(plan) + n_fileops

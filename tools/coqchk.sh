#!/bin/sh
# tools/coqchk.sh : re-check every compiled property module (and all it depends on) with the independent checker and list
# the axioms; slow (tens of minutes).  Output: evidence/coqchk.txt
cd "$(dirname "$0")/../coq" || exit 1
mods=$(ls theories/Properties/*.v | sed 's|theories/Properties/\(.*\)\.v|GS.Properties.\1|' | tr '\n' ' ')
timeout 7200 coqchk -silent -o -Q theories GS $mods > ../evidence/coqchk.txt 2>&1
rc=$?
tail -30 ../evidence/coqchk.txt
exit $rc

#!/bin/sh
# tools/seed_round.sh SRCROOT WTROOT K...: archive + confirm (seed_verify) and run the property's check (seed_check) for every property
cd "$(dirname "$0")/.."
src=$1; wt=$2; shift 2
for id in C01 C02 C03 C04 C05 C06 C07 C08 C09 C10 C11 C12 C13 C14 C15 C16 C17 C18 C19 C20; do
  for k in "$@"; do
    [ -f $src/$id/$k/patch.diff ] || { echo "$id-$k MISSING"; continue; }
    python3 tools/seed_verify.py $id $k $src $wt 2>&1 | tail -1 | cut -c1-200
    python3 tools/seed_check.py $id-$k quick $id 2>&1 | tail -1 | cut -c1-260
    git -C /repo checkout -- . 2>/dev/null
  done
done

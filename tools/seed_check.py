#!/usr/bin/env python3
"""tools/seed_check.py <ID>-<K> [tier] : apply seeded/<ID>-<K>/patch.diff to /repo, run ./check <ID>, undo."""
import json, os, subprocess, sys, time
ROOT = os.path.dirname(os.path.dirname(os.path.abspath(__file__)))
name = sys.argv[1]; tier = sys.argv[2] if len(sys.argv) > 2 else "quick"
pid = name.split("-")[0]
pids = sys.argv[3].split(",") if len(sys.argv) > 3 else [pid]
d = os.path.join(ROOT, "seeded", name)
assert subprocess.run("git -C /repo status --porcelain", shell=True, capture_output=True).stdout.strip() == b"", "/repo not clean"
if subprocess.run("git -C /repo apply %s/patch.diff" % d, shell=True).returncode != 0:
    if subprocess.run("cd /repo && patch -p1 --fuzz=3 --no-backup-if-mismatch < %s/patch.diff" % d, shell=True).returncode != 0:
        subprocess.run("git -C /repo checkout -- . && git -C /repo clean -fdq", shell=True)
        raise SystemExit("seed no longer applies: " + name)
out = {}
try:
    for p in pids:
        t = time.time()
        r = subprocess.run("./check %s --tier %s" % (p, tier), shell=True, cwd=ROOT, capture_output=True)
        lines = [l for l in r.stdout.decode().splitlines() if l.startswith("VIOLATION")]
        out[p] = {"rc": r.returncode, "violation_lines": lines[:5], "wall_s": round(time.time() - t, 1)}
finally:
    subprocess.run("git -C /repo checkout -- . && git -C /repo clean -fdq", shell=True)
meta = json.load(open(os.path.join(d, "meta.json")))
meta.setdefault("checks_run", {})[tier] = out
json.dump(meta, open(os.path.join(d, "meta.json"), "w"), indent=1)
print(name, tier, json.dumps(out))

#!/bin/sh
# tools/soak.sh N [tier]: every claimed check with seeds 1..N; prints only failures and a summary
cd "$(dirname "$0")/.."
n=${1:-3}; tier=${2:-quick}; bad=0
for s in $(seq 1 $n); do
  for id in $(python3 -c "import json; print(' '.join(c['property_id'] for c in json.load(open('MANIFEST.json'))['checks']))"); do
    out=$(VERIF_SEED=$s ./check $id --tier $tier 2>&1); rc=$?
    if [ $rc -ne 0 ] || echo "$out" | grep -q '^VIOLATION'; then
      bad=$((bad+1)); echo "FAIL $id seed=$s rc=$rc"; echo "$out" | grep '^VIOLATION' | head -3
      mkdir -p /tmp/soak_fail; cp -r replays/$id /tmp/soak_fail/$id.seed$s 2>/dev/null
    fi
  done
  echo "pass $s done, failures so far: $bad"
done

module goxlate

go 1.25.0

// goxlate: translator from the raw-syscall Go of criyle/go-sandbox's child launch code to the
// Gallina intermediate representation of coq/theories/Launch/ChildIR.v.
//
//   goxlate <package dir> <func> [<func> ...]  > ChildSrcGen.v        (run with /repo as working directory)
//
// The package is parsed and type-checked (go/types, source importer), so every constant expression is
// emitted with the value the compiler computes for it (syscall numbers, flag words, error locations,
// sizeof).  What is translated: raw-syscall calls with the variables their results are assigned to,
// assignments, ++, if/else (with init), for (three forms), range over slices, range over a fixed-size
// array, blocks, break/continue/return, the never-returning childExitError/childExitErrorWithIndex,
// and calls of other functions of the package with a body (inlined).  Anything else is an error
// (exit status 3): the translator never guesses.
package main

import (
	"bytes"
	"fmt"
	"go/ast"
	"go/build"
	"go/constant"
	"go/importer"
	"go/parser"
	"go/printer"
	"go/token"
	"go/types"
	"os"
	"path/filepath"
	"regexp"
	"sort"
	"strings"
)

type xl struct {
	fset   *token.FileSet
	info   *types.Info
	pkg    *types.Package
	funcs  map[string]*ast.FuncDecl
	vars   map[string]int
	vorder []string
	ptrs   map[string]int
	porder []string
	depth  int
	prefix []string // rename prefixes of inlined functions (innermost last)
	locals []map[string]string
	objs   map[types.Object]string // every declared variable has its own name: shadowing declarations get a suffix
	taken  map[string]bool
	elemOf map[types.Object]string // a range value variable stands for an element of the slice it ranges over
}

func die(pos token.Pos, fset *token.FileSet, f string, a ...interface{}) {
	fmt.Fprintf(os.Stderr, "goxlate: %s: %s\n", fset.Position(pos), fmt.Sprintf(f, a...))
	os.Exit(3)
}

func (x *xl) text(n ast.Node) string {
	var b bytes.Buffer
	printer.Fprint(&b, x.fset, n)
	return strings.Join(strings.Fields(b.String()), " ")
}

func sanitize(s string) string {
	var b strings.Builder
	for _, c := range s {
		switch {
		case c >= 'a' && c <= 'z', c >= 'A' && c <= 'Z', c >= '0' && c <= '9':
			b.WriteRune(c)
		default:
			b.WriteByte('_')
		}
	}
	return b.String()
}

// name of the variable an identifier denotes.  Go's scoping is resolved by the type checker: two declarations of
// one name (a shadowing := in an inner block, the parameters of an inlined function) are two variables here too;
// the first keeps the plain name, later ones get name$2, name$3, ...
func (x *xl) identName(id *ast.Ident) string {
	obj := x.info.Uses[id]
	if obj == nil {
		obj = x.info.Defs[id]
	}
	if obj == nil {
		return id.Name
	}
	if _, isVar := obj.(*types.Var); !isVar {
		return id.Name
	}
	if n, ok := x.objs[obj]; ok {
		return n
	}
	n := id.Name
	for k := 2; x.taken[n]; k++ {
		n = fmt.Sprintf("%s$%d", id.Name, k)
	}
	x.taken[n] = true
	x.objs[obj] = n
	return n
}

func (x *xl) v(name string) string {
	if _, ok := x.vars[name]; !ok {
		x.vars[name] = len(x.vorder)
		x.vorder = append(x.vorder, name)
	}
	return "v_" + sanitize(name)
}

var suffixRe = regexp.MustCompile(`\$[0-9]+`)

func (x *xl) p(name string) string {
	// pointers are named by what they point to; the suffix that tells shadowing declarations apart is not part of that
	name = suffixRe.ReplaceAllString(name, "")
	if _, ok := x.ptrs[name]; !ok {
		x.ptrs[name] = len(x.porder)
		x.porder = append(x.porder, name)
	}
	return "p_" + sanitize(name)
}

func zlit(s string) string {
	if strings.HasPrefix(s, "-") {
		return "(" + s + ")"
	}
	return s
}

// constant value of an expression, if the type checker computed one
func (x *xl) constOf(e ast.Expr) (string, bool) {
	tv, ok := x.info.Types[e]
	if !ok || tv.Value == nil {
		return "", false
	}
	switch tv.Value.Kind() {
	case constant.Int:
		return zlit(tv.Value.ExactString()), true
	case constant.Bool:
		if constant.BoolVal(tv.Value) {
			return "1", true
		}
		return "0", true
	}
	return "", false
}

// name of a variable-like expression: identifiers and field selections (a.b.c)
func (x *xl) varName(e ast.Expr) (string, bool) {
	switch t := e.(type) {
	case *ast.Ident:
		return x.identName(t), true
	case *ast.SelectorExpr:
		if b, ok := x.varName(t.X); ok {
			return b + "." + t.Sel.Name, true
		}
	case *ast.ParenExpr:
		return x.varName(t.X)
	}
	return "", false
}

func isConv(x *xl, c *ast.CallExpr) bool {
	if len(c.Args) != 1 {
		return false
	}
	tv, ok := x.info.Types[c.Fun]
	return ok && tv.IsType()
}

var binops = map[token.Token]string{
	token.LAND: "OAnd", token.LOR: "OOr", token.EQL: "OEq", token.NEQ: "ONe", token.LSS: "OLt", token.LEQ: "OLe",
	token.GTR: "OGt", token.GEQ: "OGe", token.AND: "OBand", token.OR: "OBor", token.ADD: "OAdd", token.SUB: "OSub",
}

func (x *xl) ptrName(e ast.Expr) string {
	// normalised text of the pointed-to object, with inlined parameters renamed
	switch t := e.(type) {
	case *ast.UnaryExpr:
		if t.Op == token.AND {
			return "&" + x.ptrName(t.X)
		}
	case *ast.IndexExpr:
		if c, ok := x.constOf(t.Index); ok {
			return x.ptrName(t.X) + "[" + c + "]"
		}
		// an element chosen by a variable index
		return x.ptrName(t.X) + "[]"
	case *ast.ParenExpr:
		return x.ptrName(t.X)
	case *ast.Ident:
		obj := x.info.Uses[t]
		if obj == nil {
			obj = x.info.Defs[t]
		}
		if a, ok := x.elemOf[obj]; ok {
			return a + "[]"
		}
	}
	if n, ok := x.varName(e); ok {
		return n
	}
	die(e.Pos(), x.fset, "unsupported pointer expression %s", x.text(e))
	return ""
}

func (x *xl) expr(e ast.Expr) string {
	if c, ok := x.constOf(e); ok {
		return "(EConst " + c + ")"
	}
	switch t := e.(type) {
	case *ast.ParenExpr:
		return x.expr(t.X)
	case *ast.Ident:
		if t.Name == "nil" {
			return "(EConst 0)"
		}
		return "(EVar " + x.v(x.identName(t)) + ")"
	case *ast.SelectorExpr:
		if n, ok := x.varName(t); ok {
			return "(EVar " + x.v(n) + ")"
		}
	case *ast.IndexExpr:
		if n, ok := x.varName(t.X); ok {
			return "(EIndex " + x.v(n) + " " + x.expr(t.Index) + ")"
		}
	case *ast.UnaryExpr:
		switch t.Op {
		case token.NOT:
			return "(ENot " + x.expr(t.X) + ")"
		case token.AND:
			return "(EPtr " + x.p(x.ptrName(t)) + ")"
		}
	case *ast.BinaryExpr:
		if op, ok := binops[t.Op]; ok {
			return "(EBin " + op + " " + x.expr(t.X) + " " + x.expr(t.Y) + ")"
		}
	case *ast.CallExpr:
		if id, ok := t.Fun.(*ast.Ident); ok && id.Name == "len" && len(t.Args) == 1 {
			if n, ok := x.varName(t.Args[0]); ok {
				return "(ELen " + x.v(n) + ")"
			}
		}
		if sel, ok := t.Fun.(*ast.SelectorExpr); ok {
			if pk, ok := sel.X.(*ast.Ident); ok && pk.Name == "unsafe" && sel.Sel.Name == "Pointer" && len(t.Args) == 1 {
				return "(EPtr " + x.p(x.ptrName(t.Args[0])) + ")"
			}
		}
		if isConv(x, t) {
			// integer and pointer conversions keep the value (no narrowing conversion occurs in the translated code:
			// checked here: only uintptr, int, uint64, uint32 of word-sized operands are accepted)
			tv := x.info.Types[t.Fun]
			switch tv.Type.String() {
			case "uintptr", "int", "uint64", "uint", "int64":
				return x.expr(t.Args[0])
			}
			die(t.Pos(), x.fset, "unsupported conversion %s", x.text(t))
		}
	}
	die(e.Pos(), x.fset, "unsupported expression %s (%T)", x.text(e), e)
	return ""
}

func isRawSyscall(c *ast.CallExpr) bool {
	if sel, ok := c.Fun.(*ast.SelectorExpr); ok {
		switch sel.Sel.Name {
		case "RawSyscall", "RawSyscall6", "RawVforkSyscall":
			return true
		}
	}
	return false
}

func (x *xl) lhsVar(e ast.Expr) string {
	if id, ok := e.(*ast.Ident); ok && id.Name == "_" {
		return "None"
	}
	if n, ok := x.varName(e); ok {
		return "(Some " + x.v(n) + ")"
	}
	die(e.Pos(), x.fset, "unsupported result variable %s", x.text(e))
	return ""
}

func list(items []string) string {
	return "[" + strings.Join(items, "; ") + "]"
}

func (x *xl) sys(c *ast.CallExpr, r, e string) string {
	if len(c.Args) < 1 {
		die(c.Pos(), x.fset, "raw syscall without a number")
	}
	var args []string
	for _, a := range c.Args[1:] {
		args = append(args, x.expr(a))
	}
	// trailing zero arguments are padding of the calling convention
	for len(args) > 0 && args[len(args)-1] == "(EConst 0)" {
		args = args[:len(args)-1]
	}
	return "SSys " + r + " " + e + " " + x.expr(c.Args[0]) + " " + list(args)
}

func (x *xl) call(c *ast.CallExpr) []string {
	if isRawSyscall(c) {
		return []string{x.sys(c, "None", "None")}
	}
	if id, ok := c.Fun.(*ast.Ident); ok {
		switch id.Name {
		case "childExitError":
			if len(c.Args) != 3 {
				die(c.Pos(), x.fset, "childExitError with %d arguments", len(c.Args))
			}
			loc, ok := x.constOf(c.Args[1])
			if !ok {
				die(c.Pos(), x.fset, "error location is not a constant")
			}
			return []string{"SExit " + x.expr(c.Args[0]) + " " + loc + " None " + x.expr(c.Args[2])}
		case "childExitErrorWithIndex":
			if len(c.Args) != 4 {
				die(c.Pos(), x.fset, "childExitErrorWithIndex with %d arguments", len(c.Args))
			}
			loc, ok := x.constOf(c.Args[1])
			if !ok {
				die(c.Pos(), x.fset, "error location is not a constant")
			}
			return []string{"SExit " + x.expr(c.Args[0]) + " " + loc + " (Some " + x.expr(c.Args[2]) + ") " + x.expr(c.Args[3])}
		case "afterForkInChild", "beforeFork", "afterFork":
			// runtime hooks (linknamed): no system call that concerns the program, no effect on the variables
			return []string{"SMark " + x.p("runtime."+id.Name)}
		}
		if fd, ok := x.funcs[id.Name]; ok && fd.Body != nil && x.depth < 4 {
			// a function of the package: inlined, parameters assigned first
			if fd.Type.Results != nil && len(fd.Type.Results.List) > 0 {
				die(c.Pos(), x.fset, "call of %s: results of an inlined function are not supported here", id.Name)
			}
			loc := map[string]string{}
			var out []string
			i := 0
			for _, f := range fd.Type.Params.List {
				for _, n := range f.Names {
					if i >= len(c.Args) {
						die(c.Pos(), x.fset, "call of %s: too few arguments", id.Name)
					}
					out = append(out, "SSet (LVar "+x.v(x.identName(n))+") "+x.expr(c.Args[i]))
					i++
				}
			}
			x.locals = append(x.locals, loc)
			x.depth++
			body := x.block(fd.Body.List)
			x.depth--
			x.locals = x.locals[:len(x.locals)-1]
			return append(out, "SInline "+list(body))
		}
	}
	if sel, ok := c.Fun.(*ast.SelectorExpr); ok {
		if pk, ok := sel.X.(*ast.Ident); ok && pk.Name == "syscall" && sel.Sel.Name == "ForkLock" {
			return nil
		}
		if inner, ok := sel.X.(*ast.SelectorExpr); ok {
			if pk, ok := inner.X.(*ast.Ident); ok && pk.Name == "syscall" && inner.Sel.Name == "ForkLock" {
				return []string{"SMark " + x.p("ForkLock."+sel.Sel.Name)}
			}
		}
	}
	die(c.Pos(), x.fset, "unsupported call %s", x.text(c))
	return nil
}

func (x *xl) lval(e ast.Expr) string {
	switch t := e.(type) {
	case *ast.IndexExpr:
		if n, ok := x.varName(t.X); ok {
			return "(LIdx " + x.v(n) + " " + x.expr(t.Index) + ")"
		}
	}
	if n, ok := x.varName(e); ok {
		return "(LVar " + x.v(n) + ")"
	}
	die(e.Pos(), x.fset, "unsupported assignment target %s", x.text(e))
	return ""
}

func (x *xl) declare(e ast.Expr) {
	// a := inside an inlined function: rename the new local
	// names are resolved through the type checker's objects (identName)
}

func (x *xl) stmt(s ast.Stmt) []string {
	switch t := s.(type) {
	case *ast.ExprStmt:
		if c, ok := t.X.(*ast.CallExpr); ok {
			return x.call(c)
		}
	case *ast.AssignStmt:
		if len(t.Rhs) == 1 {
			if c, ok := t.Rhs[0].(*ast.CallExpr); ok && isRawSyscall(c) {
				if len(t.Lhs) == 2 {
					// vfork.RawVforkSyscall returns (r1, err)
					return []string{x.sys(c, x.lhsVar(t.Lhs[0]), x.lhsVar(t.Lhs[1]))}
				}
				if len(t.Lhs) != 3 {
					die(t.Pos(), x.fset, "raw syscall assigned to %d variables", len(t.Lhs))
				}
				if t.Tok == token.DEFINE {
					for _, l := range t.Lhs {
						x.declare(l)
					}
				}
				if id, ok := t.Lhs[1].(*ast.Ident); !ok || id.Name != "_" {
					die(t.Pos(), x.fset, "second result of a raw syscall is used")
				}
				return []string{x.sys(c, x.lhsVar(t.Lhs[0]), x.lhsVar(t.Lhs[2]))}
			}
			if c, ok := t.Rhs[0].(*ast.CallExpr); ok && len(t.Lhs) == 2 {
				if id, ok := c.Fun.(*ast.Ident); ok && id.Name == "prepareFds" && len(c.Args) == 1 {
					a, ok1 := x.varName(c.Args[0])
					f, ok2 := x.varName(t.Lhs[0])
					n, ok3 := x.varName(t.Lhs[1])
					if ok1 && ok2 && ok3 {
						return []string{"SPrepareFds " + x.v(f) + " " + x.v(n) + " " + x.v(a)}
					}
				}
			}
		}
		if len(t.Lhs) == 1 && len(t.Rhs) == 1 {
			if c, ok := t.Rhs[0].(*ast.CallExpr); ok {
				if id, ok := c.Fun.(*ast.Ident); ok && id.Name == "make" && len(c.Args) == 2 {
					if n, ok := x.varName(t.Lhs[0]); ok {
						if t.Tok == token.DEFINE {
							x.declare(t.Lhs[0])
							n, _ = x.varName(t.Lhs[0])
						}
						return []string{"SMake " + x.v(n) + " " + x.expr(c.Args[1])}
					}
				}
			}
			if u, ok := t.Rhs[0].(*ast.UnaryExpr); ok && u.Op == token.AND {
				if _, ok := u.X.(*ast.CompositeLit); ok {
					// a struct built for a system call (clone3 arguments): its address is an opaque pointer
					if n, ok := x.varName(t.Lhs[0]); ok {
						return []string{"SSet (LVar " + x.v(n) + ") (EConst 1)"}
					}
				}
			}
			switch t.Tok {
			case token.DEFINE:
				r := x.expr(t.Rhs[0])
				x.declare(t.Lhs[0])
				return []string{"SSet " + x.lval(t.Lhs[0]) + " " + r}
			case token.ASSIGN:
				return []string{"SSet " + x.lval(t.Lhs[0]) + " " + x.expr(t.Rhs[0])}
			case token.OR_ASSIGN:
				return []string{"SSet " + x.lval(t.Lhs[0]) + " (EBin OBor " + x.expr(t.Lhs[0]) + " " + x.expr(t.Rhs[0]) + ")"}
			case token.AND_ASSIGN:
				return []string{"SSet " + x.lval(t.Lhs[0]) + " (EBin OBand " + x.expr(t.Lhs[0]) + " " + x.expr(t.Rhs[0]) + ")"}
			case token.ADD_ASSIGN:
				return []string{"SSet " + x.lval(t.Lhs[0]) + " (EBin OAdd " + x.expr(t.Lhs[0]) + " " + x.expr(t.Rhs[0]) + ")"}
			}
		}
	case *ast.IncDecStmt:
		op := "OAdd"
		if t.Tok == token.DEC {
			op = "OSub"
		}
		return []string{"SSet " + x.lval(t.X) + " (EBin " + op + " " + x.expr(t.X) + " (EConst 1))"}
	case *ast.IfStmt:
		var out []string
		if t.Init != nil {
			out = append(out, x.stmt(t.Init)...)
		}
		c := x.expr(t.Cond)
		th := x.block(t.Body.List)
		var el []string
		if t.Else != nil {
			el = x.stmt(t.Else)
		}
		return append(out, "SIf "+c+" "+list(th)+" "+list(el))
	case *ast.BlockStmt:
		return x.block(t.List)
	case *ast.ForStmt:
		var out []string
		if t.Init != nil {
			out = append(out, x.stmt(t.Init)...)
		}
		c := "(EConst 1)"
		if t.Cond != nil {
			c = x.expr(t.Cond)
		}
		var post []string
		if t.Post != nil {
			post = x.stmt(t.Post)
		}
		return append(out, "SWhile "+c+" "+list(x.block(t.Body.List))+" "+list(post))
	case *ast.RangeStmt:
		if cl, ok := t.X.(*ast.CompositeLit); ok {
			if at, ok := cl.Type.(*ast.ArrayType); ok && at.Len != nil && t.Key == nil && t.Value == nil {
				if n, ok := x.constOf(at.Len); ok {
					return []string{"SRepeat " + n + " " + list(x.block(t.Body.List))}
				}
			}
		}
		if arr, ok := x.varName(t.X); ok {
			k, v := "None", "None"
			if t.Key != nil {
				if t.Tok == token.DEFINE {
					x.declare(t.Key)
				}
				k = x.lhsVar(t.Key)
			}
			if t.Value != nil {
				if t.Tok == token.DEFINE {
					x.declare(t.Value)
				}
				v = x.lhsVar(t.Value)
				if id, ok := t.Value.(*ast.Ident); ok {
					obj := x.info.Defs[id]
					if obj == nil {
						obj = x.info.Uses[id]
					}
					if obj != nil {
						x.elemOf[obj] = suffixRe.ReplaceAllString(arr, "")
					}
				}
			}
			return []string{"SRange " + k + " " + v + " " + x.v(arr) + " " + list(x.block(t.Body.List))}
		}
	case *ast.BranchStmt:
		if t.Label == nil {
			switch t.Tok {
			case token.BREAK:
				return []string{"SBreak"}
			case token.CONTINUE:
				return []string{"SContinue"}
			}
		}
	case *ast.ReturnStmt:
		return []string{"SReturn"}
	case *ast.DeclStmt:
		if gd, ok := t.Decl.(*ast.GenDecl); ok && (gd.Tok == token.CONST || gd.Tok == token.VAR) {
			for _, sp := range gd.Specs {
				if vs, ok := sp.(*ast.ValueSpec); ok && gd.Tok == token.VAR {
					if len(vs.Values) != 0 {
						if len(vs.Values) != len(vs.Names) {
							die(t.Pos(), x.fset, "unsupported var declaration %s", x.text(t))
						}
					}
				}
			}
			var out []string
			if gd.Tok == token.VAR {
				for _, sp := range gd.Specs {
					vs := sp.(*ast.ValueSpec)
					for i, n := range vs.Names {
						x.declare(n)
						if len(vs.Values) > 0 {
							out = append(out, "SSet "+x.lval(n)+" "+x.expr(vs.Values[i]))
						}
					}
				}
			}
			return out
		}
	case *ast.EmptyStmt:
		return nil
	}
	die(s.Pos(), x.fset, "unsupported statement %s (%T)", x.text(s), s)
	return nil
}

func (x *xl) block(l []ast.Stmt) []string {
	var out []string
	for _, s := range l {
		out = append(out, x.stmt(s)...)
	}
	return out
}

func coqString(s string) string {
	return "\"" + strings.ReplaceAll(s, "\"", "\"\"") + "\""
}

func main() {
	if len(os.Args) < 3 {
		fmt.Fprintln(os.Stderr, "usage: goxlate <package dir> <func>...")
		os.Exit(2)
	}
	dir := os.Args[1]
	fset := token.NewFileSet()
	bp, err := build.ImportDir(dir, 0)
	if err != nil {
		fmt.Fprintln(os.Stderr, "goxlate:", err)
		os.Exit(3)
	}
	var files []*ast.File
	for _, f := range bp.GoFiles {
		af, err := parser.ParseFile(fset, filepath.Join(dir, f), nil, 0)
		if err != nil {
			fmt.Fprintln(os.Stderr, "goxlate:", err)
			os.Exit(3)
		}
		files = append(files, af)
	}
	info := &types.Info{Types: map[ast.Expr]types.TypeAndValue{}, Defs: map[*ast.Ident]types.Object{}, Uses: map[*ast.Ident]types.Object{}}
	conf := types.Config{Importer: importer.ForCompiler(fset, "source", nil)}
	pkg, err := conf.Check(bp.ImportPath, fset, files, info)
	if err != nil {
		fmt.Fprintln(os.Stderr, "goxlate: type check:", err)
		os.Exit(3)
	}
	x := &xl{fset: fset, info: info, pkg: pkg, funcs: map[string]*ast.FuncDecl{}, vars: map[string]int{}, ptrs: map[string]int{},
		objs: map[types.Object]string{}, taken: map[string]bool{}, elemOf: map[types.Object]string{}}
	for _, f := range files {
		for _, d := range f.Decls {
			if fd, ok := d.(*ast.FuncDecl); ok && fd.Recv == nil {
				x.funcs[fd.Name.Name] = fd
			}
		}
	}
	var defs []string
	for _, fn := range os.Args[2:] {
		fd, ok := x.funcs[fn]
		if !ok || fd.Body == nil {
			fmt.Fprintf(os.Stderr, "goxlate: function %s not found in %s\n", fn, dir)
			os.Exit(3)
		}
		body := x.block(fd.Body.List)
		defs = append(defs, fmt.Sprintf("Definition src_%s : list stmt :=\n  [ %s ].\n", fn, strings.Join(body, ";\n    ")))
	}
	var b strings.Builder
	b.WriteString("(* GENERATED by tools/goxlate from " + dir + " -- do not edit; regenerated on every run *)\n")
	b.WriteString("From Coq Require Import List ZArith NArith String.\nFrom GS Require Import Launch.ChildIR.\nImport ListNotations.\nOpen Scope Z_scope.\nOpen Scope string_scope.\n\n")
	for i, n := range x.vorder {
		fmt.Fprintf(&b, "Definition v_%s : N := %d%%N.\n", sanitize(n), i)
	}
	var vn []string
	for i, n := range x.vorder {
		vn = append(vn, fmt.Sprintf("(%d%%N, %s)", i, coqString(n)))
	}
	fmt.Fprintf(&b, "Definition var_names : list (N * string) := %s.\n\n", list(vn))
	for i, n := range x.porder {
		fmt.Fprintf(&b, "Definition p_%s : N := %d%%N.\n", sanitize(n), i)
	}
	var pn []string
	for i, n := range x.porder {
		pn = append(pn, fmt.Sprintf("(%d%%N, %s)", i, coqString(n)))
	}
	fmt.Fprintf(&b, "Definition ptr_names : list (N * string) := %s.\n\n", list(pn))
	// error locations and other typed constants of the package
	type kv struct {
		n string
		v string
	}
	var locs []kv
	sc := pkg.Scope()
	for _, name := range sc.Names() {
		if c, ok := sc.Lookup(name).(*types.Const); ok && c.Val().Kind() == constant.Int {
			if strings.HasSuffix(c.Type().String(), ".ErrorLocation") {
				locs = append(locs, kv{name, zlit(c.Val().ExactString())})
			}
		}
	}
	sort.Slice(locs, func(i, j int) bool { return len(locs[i].v) < len(locs[j].v) || (len(locs[i].v) == len(locs[j].v) && locs[i].v < locs[j].v) })
	var ln []string
	for _, l := range locs {
		ln = append(ln, fmt.Sprintf("(%s, %s)", l.v, coqString(l.n)))
	}
	fmt.Fprintf(&b, "Definition loc_names : list (Z * string) := %s.\n\n", list(ln))
	// package-level variables with constant initialisers: byte strings and structs of constants
	var gl []string
	for _, f := range files {
		for _, d := range f.Decls {
			gd, ok := d.(*ast.GenDecl)
			if !ok || gd.Tok != token.VAR {
				continue
			}
			for _, sp := range gd.Specs {
				vs := sp.(*ast.ValueSpec)
				for i, n := range vs.Names {
					if i >= len(vs.Values) {
						continue
					}
					switch val := vs.Values[i].(type) {
					case *ast.CallExpr:
						// []byte("...")
						if len(val.Args) == 1 {
							if tv, ok := info.Types[val.Args[0]]; ok && tv.Value != nil && tv.Value.Kind() == constant.String {
								s := constant.StringVal(tv.Value)
								var bs []string
								for _, c := range []byte(s) {
									bs = append(bs, fmt.Sprintf("%d", c))
								}
								gl = append(gl, fmt.Sprintf("(%s, GBytes %s)", coqString(n.Name), list(bs)))
							}
						}
					case *ast.CompositeLit:
						var fs []string
						okAll := true
						for _, el := range val.Elts {
							kvx, ok := el.(*ast.KeyValueExpr)
							if !ok {
								okAll = false
								break
							}
							k, ok := kvx.Key.(*ast.Ident)
							if !ok {
								okAll = false
								break
							}
							if tv, ok := info.Types[kvx.Value]; ok && tv.Value != nil && tv.Value.Kind() == constant.Int {
								fs = append(fs, fmt.Sprintf("(%s, %s)", coqString(k.Name), zlit(tv.Value.ExactString())))
							} else {
								okAll = false
							}
						}
						if okAll {
							gl = append(gl, fmt.Sprintf("(%s, GStruct %s)", coqString(n.Name), list(fs)))
						}
					default:
						if tv, ok := info.Types[vs.Values[i]]; ok && tv.Value != nil && tv.Value.Kind() == constant.Int {
							gl = append(gl, fmt.Sprintf("(%s, GInt %s)", coqString(n.Name), zlit(tv.Value.ExactString())))
						}
					}
				}
			}
		}
	}
	fmt.Fprintf(&b, "Definition globals : list (string * global) := %s.\n\n", list(gl))
	// integer package variables that the translated code reads
	var gi []string
	for _, f := range files {
		for _, d := range f.Decls {
			gd, ok := d.(*ast.GenDecl)
			if !ok || gd.Tok != token.VAR {
				continue
			}
			for _, sp := range gd.Specs {
				vs := sp.(*ast.ValueSpec)
				for i, n := range vs.Names {
					if i >= len(vs.Values) {
						continue
					}
					if _, used := x.vars[n.Name]; !used {
						continue
					}
					if tv, ok := info.Types[vs.Values[i]]; ok && tv.Value != nil && tv.Value.Kind() == constant.Int {
						gi = append(gi, fmt.Sprintf("(v_%s, %s)", sanitize(n.Name), zlit(tv.Value.ExactString())))
					}
				}
			}
		}
	}
	fmt.Fprintf(&b, "Definition global_ints : list (N * Z) := %s.\n\n", list(gi))
	for _, d := range defs {
		b.WriteString(d)
		b.WriteString("\n")
	}
	// the callee of SPrepareFds: body, parameter, returned slice, returned scalar
	if fd, ok := x.funcs["prepareFds"]; ok && fd.Body != nil && len(fd.Type.Params.List) == 1 && len(fd.Type.Params.List[0].Names) == 1 {
		var ret *ast.ReturnStmt
		if n := len(fd.Body.List); n > 0 {
			ret, _ = fd.Body.List[n-1].(*ast.ReturnStmt)
		}
		translated := false
		for _, fn := range os.Args[2:] {
			translated = translated || fn == "prepareFds"
		}
		if ret != nil && len(ret.Results) == 2 && translated {
			r0, ok0 := ret.Results[0].(*ast.Ident)
			r1, ok1 := ret.Results[1].(*ast.Ident)
			if ok0 && ok1 {
				fmt.Fprintf(&b, "Definition prepareFds_info : prepinfo := (src_prepareFds, v_%s, v_%s, v_%s).\n",
					sanitize(x.identName(fd.Type.Params.List[0].Names[0])), sanitize(x.identName(r0)), sanitize(x.identName(r1)))
			}
		}
	}
	fmt.Print(b.String())
}

#!/bin/sh
# tools/runall.sh [tier] : run every claimed check and print one line each
cd "$(dirname "$0")/.."
tier=${1:-quick}
for id in $(python3 -c "import json; print(' '.join(c['property_id'] for c in json.load(open('MANIFEST.json'))['checks']))"); do
  t0=$(date +%s); out=$(./check $id --tier $tier 2>&1); rc=$?; t1=$(date +%s)
  echo "$id rc=$rc $((t1-t0))s $(echo "$out" | grep -c '^VIOLATION') violations $(echo "$out" | grep -c '^KNOWN-FINDING') known"
done

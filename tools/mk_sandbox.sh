#!/bin/sh
# tools/mk_sandbox.sh NAME : a private copy of /verif and a worktree of /repo under /tmp/NAME for work that must not
# disturb /verif and /repo (strengthening a check against a seeded change).  Use with VERIF_REPO=/tmp/NAME/repo.
set -e
n=$1
rm -rf /tmp/$n/verif; git -C /repo worktree remove --force /tmp/$n/repo 2>/dev/null || true
mkdir -p /tmp/$n
rsync -a --exclude replays --exclude 'build/srcthm/work.*' --exclude 'build/work' /verif/ /tmp/$n/verif/
git -C /repo worktree add -q --detach /tmp/$n/repo HEAD
sed -i "s#=> /repo#=> /tmp/$n/repo#" /tmp/$n/verif/harness/go.mod
(cd /tmp/$n/verif && git add -A >/dev/null 2>&1 && git -c user.name=sandbox -c user.email=s@x commit -qm "sandbox base" || true)
echo /tmp/$n

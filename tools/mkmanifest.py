#!/usr/bin/env python3
"""Regenerates MANIFEST.json from the table below (kept in one place so the
manifest is valid at every commit).  Run:  python3 tools/mkmanifest.py"""
import json, os, subprocess

# additions of the fourth round of seeded changes (appended to the texts above)
EXTRA = {
 "C15": "  Flags arguments with access mode 3 and garbage bits through open, openat and openat2.",
 "C08": "  Raw rlimit entries beside the named limits.",
 "C01": "  Syscall-name lookups (as the tracer makes them, x32 numbers included) are issued between the builds.",
 "C02": "  Pathnames also go through the program's own descriptor links (/proc/self/fd/N, /dev/fd/N) whose targets are longer than 64 bytes.",
 "C03": "  The configured ban error changes from batch to batch within one process.",
 "C04": "  Also a launcher whose real ids differ from its effective ids.  Containers whose program runs under a generated credential (the ids inside are the configured ones); eight goroutines launching with different explicit id mappings at the same time; the blocked-signal set of the start state shows through C09.  Launch/IdMap.v: the text written to uid_map / gid_map (formatIDMappings; the default mapping of the launcher's own id) with C04_idmap_text_reads_back (for every list of mappings the text, read as lines of three decimal fields, is exactly the configuration) and C04_idmap_text_injective; the texts of 7 real starts, taken from an strace of the launching thread, are compared with the model in Coq.",
 "C05": "  One base mount table is handed to two builders; a read-only bind whose source file system is read-only as a whole only during set-up is written to after the file system became writable again.  A masked directory must not accept new files; a policy installed twice.",
 "C06": "  Container launches also carry exec and cgroup descriptors together, and an interpreter script as the executable descriptor.",
 "C07": "  Also setgroups refused in a user namespace.  Histories of launches in one container (callback before / after exec, refusing, context cancelled beforehand): a configured callback is invoked exactly once before any exec result exists.",
 "C09": "  Usage one microsecond over the bound, with an oracle on verdict and measurement.  Signals raised by a program that leaves its signal mask and dispositions as it found them.",
 "C10": "  A container killed under the host: each of 14 later calls must fail within seconds; a planted FIFO is opened through the RPC.  Calls made while the container init is stopped or stalled.",
 "C12": "  Launches with refused id maps; callbacks failing after the program built its tree, with the init's children counted right after the run.  Destroy of environments that are already broken or dead.",
 "C13": "  Writable mounts named as string prefixes of one another; executables larger than 128 MiB.",
 "C14": "  Open flags include O_NOFOLLOW / O_NONBLOCK; a batch with 25 KB of error text; batches of 253 and 254 succeeding items (the latter is the known finding).",
 "C16": "  The launch steps are repeated with a program that runs under other ids; a traced run without a filter is killed while its descendants run.  Every process tree has a vfork+exec descendant; the controller is killed while the child of a traced launch is still in a 3000-mount set-up, with the check process as child subreaper.",
 "C17": "  A call given up before it is made, next to other calls on its environment; an environment built on a thread whose later traced run fails to start.  The launching thread of 19 successful and failing starts is traced (strace) and every close is checked: each descriptor a start creates is closed exactly once, no close hits a number the start does not hold.",
 "C18": "  Configurations built one after the other in one process (cmd/runprog/config.GetConf) are compared with the same configuration built alone.  Soft-ban sets made of the root entry alone; the refusal kind is compared exactly.",
 "C19": "  Received messages stay in use until the end of their history (descriptor lists must not be reused); credentials may be asked for only at receive time.  Both directions of one socket in use at once; negative descriptor values.",
 "C20": "  Memory limits at the top of the range and off page boundaries; Destroy of a group that still has sub-groups.  A pids limit of 0 and the suffixes of the statistics files.",
}
# the source tie by translation (lib/srcthm.py, coq/srcthm/, tools/goxlate): what it adds per property
SRC = ("  SOURCE TRANSLATION, re-done on every run: tools/goxlate (go/ast + go/types) translates forkAndExecInChild and prepareFds of /repo/pkg/forkexec into the "
       "Gallina IR of Launch/ChildIR.v (statements, integer expressions, raw system calls with the variables their results go to; every constant with the value "
       "the Go type checker computes); the IR interpreter runs it against a kernel oracle (any call may fail with any errno, exec may succeed); coq/srcthm/ChildSrcThm.v "
       "is re-proved against the translation: ")
EXTRA6 = {
 "C04": SRC + "C04_source_issues_specified_calls - for all 4096 combinations of the twelve interacting options x the nine others all off / all on (thorough: also exactly one on / "
        "one off) and for the nine others exhaustively with the twelve all off / all on, the calls that set identity, privileges, filter, session, names, working directory, cgroup "
        "namespace and tracing, with their arguments and the clone flags, are those of the specification Launch/ChildSeq.v child_calls, in its order (each evaluation is repeated with every "
        "field of the caller's structures that the specification does not know of set: a launch must not depend on them).  Launch/ChildSeqSec.v closes the chain for EVERY combination of the 21 options "
        "and all values (no bound): C04_spec_projects_to_model - that specification, each call read as the security step it performs, IS the step sequence of the state model - and "
        "C04_specified_calls_reach_requested_state - so the specified calls put the program into exactly the requested state.",
 "C05": SRC + "C05_source_issues_specified_calls (private root, tmpfs root, pivot, detach, read-only root: calls and flag words as specified, for the same option domains) and "
        "SRC_loops_as_specified (130 lists of mounts: directories / node created for the target, the mount, the remount of a read-only bind keeping exactly what statfs reports of "
        "nosuid/nodev/noexec/noatime/nodiratime/relatime; every call failing with six errnos is reported with its location and the index of the entry; EEXIST on a mount point is tolerated).",
 "C06": SRC + "C06_source_shuffle_is_model - for 4404 descriptor configurations (all lists of at most three entries over {-1,0,1,2,3,5,12} x ten placements of sync socket and exec "
        "descriptor, lists with a closed number, longer lists) the dup3/fcntl/close calls the source issues, replayed on the kernel table of FdShuffle.v, leave exactly the table of "
        "FdShuffle.shuffle (about which C06_shuffle is proved for every list), with the sync socket and exec descriptor where the source goes on using them.",
 "C07": SRC + "C07_source_issues_specified_calls (start of the child, sync exchange, exec), C07_source_failed_step_never_runs (every call of the child failed in turn, errnos EIO / EPERM / "
        "EEXIST in rotation: reported over the sync socket with the location of the step, nothing else is done, no exec; only sethostname / setdomainname / unshare / nanosleep results "
        "may be ignored), C07_source_refusal_never_runs (end of file on the sync socket, a sync write that reaches nobody, a short or failing id-map answer: the child exits, no exec), "
        "C07_source_gate_before_exec (one sync write, then the read that waits for approval, then only cgroup namespace / last privileges / filter / tracer attach, then the one exec), "
        "SRC_loops_as_specified (failing mount / limit entries are reported with their index).",
 "C08": SRC + "SRC_loops_as_specified - one prlimit64 per configured limit, in the order of the list, with the entry's resource and value; a refused limit is reported as LocSetRlimit with the index of the entry and the program never runs.",
 "C16": SRC + "C16_source_issues_specified_calls - a traced child asks for SIGKILL on the death of the launching thread (PR_SET_PDEATHSIG) and looks whether the launcher is gone already "
        "(getppid, except in a new pid namespace), after its privileges are dropped and before it syncs, stops or attaches, for every option combination of the domains above.  Launch/ChildSeqDeath.v, "
        "for EVERY combination of the 21 options with a tracer (no bound): C16_spec_arms_after_ids_before_gate - in that specification the request is made exactly once, nothing before it waits for "
        "the launcher or the tracer or runs the program, nothing after it changes the ids (which would clear it): the order ArmLate for which C16_traced_launch_dies_with_tracer is proved.",
}
# additions of the sixth round of seeded changes
EXTRA7 = {
 "C01": "  Where a filter reads instruction-pointer or argument words, no value of them (every constant of the program and its neighbours) may change the verdict.",
 "C02": "  Directory names that imitate what the kernel appends to /proc link texts (' (deleted)', '(unreachable)'), blanks, control bytes, meta characters, non-ASCII and 255-byte names as working directory, directory descriptor and path component; link targets drawn from the grammar of pathnames (another link followed by '..'); pathnames aimed at links.",
 "C05": "  Every generated mount table is also started directly through forkexec.Runner under the caller's choice of namespaces (with and without a new pid namespace: a proc mount must then be refused or be the program's own, read-only); existing objects below every mount are modified in place.",
 "C06": "  Histories of requests inside one container that carry descriptors and do not end in a running program (refused for having no arguments, not found, bad executable descriptor, refused limit, vetoed by the callback, cancelled), each followed by table probes.",
 "C07": "  Container launches with every option of the request varied (cgroup descriptor good / bad, executable by descriptor, filter, limits, descriptor lists): at the callback the pid is the blocked child of the init, member of the cgroup it was cloned into.",
 "C10": "  Programs whose descendants left their process group or session (setsid, setpgid, daemon), ending in four ways, each followed by distinguishable calls; several callers on one environment while an Execve is inside its callback: every caller gets the answer of its own call.",
 "C11": "  Programs with a resource profile placed just under their limits (calibrated per runner): a cancelled run is Time Limit Exceeded, never a limit verdict; elapsed-time bounds are in seconds.",
 "C12": "  Open batches over every kind of target and Reset as history operations in environments whose Reset fails (read-only bind, nested tmpfs, deep bind), with the init's descriptors counted around every operation.",
 "C13": "  Readers that are descriptors of in-memory files in all 32 seal states (own, duplicate, read-only re-open; consumed header): position and content of the sealed file are independent of the supplier's; programs that attack their executable after leaving it (exec of another image, then /proc/self/fd).",
 "C14": "  Batches of 65 to 400 items with failures anywhere (late, sparse, last item, blocks), compared item by item with the planted state, by device/inode and by a token written through each descriptor; the caller's descriptor count around the call.",
 "C15": "  Thread groups that die at a random moment while their tasks are inside traced path calls (28 call forms, six ways to die, four working directories).",
 "C16": "  Containers with a generated credential: the controller is killed during file operations (Open, Delete, Symlink, Reset) on objects planted by the previous program (pipes without a peer, link loops, thousands of files).",
 "C17": "  Launch windows one system call at a time: the launching thread of a first run is held (ptrace) after every system call of its launch and a second run is started at that point; the second run must get exactly the table it gets when nothing else goes on.",
 "C18": "  Names under /proc that belong to other processes against entries that speak of /proc/self.",
 "C19": "  Receivers short of room in their descriptor table (RLIMIT_NOFILE just above the highest open descriptor, a chosen number of free slots): a message arrives with all its descriptors or RecvMsg returns an error and leaves nothing behind.",
 "C20": "  v1 histories over handles with different controller sets and processes placed in part of them by somebody else: after AddProc the process is in the handle's group for every controller of the handle; populations of 3000 live Random siblings under one parent: all distinct, none pre-existing, as many directories as handles.",
}
ROOT = os.path.dirname(os.path.dirname(os.path.abspath(__file__)))

CLAIMED = {
 "C17": dict(
   text="Launch/Concurrent.v: one host descriptor table and syscall.ForkLock shared by ANY number of goroutines - launchers (clone with the "
        "lock held for writing, the child keeps a copy of the table), goroutines that own an inheritable descriptor under ForkLock.RLock "
        "until they mark it close-on-exec, goroutines whose descriptors are close-on-exec from birth - stepping in ANY interleaving; waits by "
        "process group; any number of callers of one environment behind its mutex.  Theorems (invariants by induction over the schedule): "
        "C17_fd_noninterference (the table a launched program inherits holds no descriptor of another goroutine), "
        "C17_no_reader_while_cloning, C17_wait_disjoint, C17_env_mutual_exclusion, C17_env_serialised (the protocol steps on the socket are "
        "a sequence of whole calls, i.e. a history of the C10 LTS).  Launch/ParentFds.v: the descriptor events of the launching side of Start for every "
        "configuration and outcome; C17_start_keeps_descriptor_discipline, C17_disciplined_starts_never_hit_foreign_numbers (any number of starts, any "
        "interleaving, any allocation of free numbers: no close or use hits a number that is not the acting start's own), C17_merged_labels_refuted; "
        "the traced events of 19 real starts are compared with the model in Coq.  Tie on every run: 6 sets of 16 workloads mixing ptrace, namespace and "
        "container runs (3 environments, concurrent calls on one of them, cancelled and signalled programs, process trees) run one by one "
        "and all at once in one host process with 8 background goroutines creating inheritable descriptors under the RLock protocol: "
        "verdict, exit value and the descriptor table reported by each program must be identical, and nothing may hang.  Also: three users of ONE environment opening and reading back their own file with Pings in between; a freshly written executable run through its descriptor next to a launch that overlapped its writing.",
   note="Partial: the tie samples schedules, the theorems quantify over all interleavings of the model's atomic steps; that these steps are "
        "atomic where the code is (each library descriptor born close-on-exec, clone inside the write-locked section) is the trusted link, "
        "exercised by the background goroutines.  The fork-lock model has no executable comparison with the code beyond these runs (level: theorem "
        "about the protocol + differential runs); the descriptor-event model of Start is compared with the traced calls of 19 real starts on every run "
        "(trusted there: strace's report of the first thread, and the table of the check that names each start's configuration and outcome).  Trusted: Coq kernel.",
   technique="Coq proof of lock-protocol invariants over all interleavings of unboundedly many goroutines + alone-versus-concurrent differential runs",
   design="§5 C17"),
 "C20": dict(
   text="Cgroup/Tree.v: handles over per-controller directory trees (v1: five controllers; v2: the same code with one), `create` (per "
        "controller an atomic mkdir; an existing directory is skipped and makes the handle `existing` iff nothing was created before it), "
        "histories of New / Random / OpenExisting / AddProc / Destroy and of directories made or removed by somebody else, concurrent creators "
        "stepping one controller at a time, and the readers of cpu.stat and of the single-number files on tokenised content.  Theorems: "
        "C20_destroy_only_own + C20_created_was_absent (every history: a directory is removed only by the handle whose own mkdir created it, "
        "never a pre-existing one), C20_unique_owner (ANY number of concurrent creators, EVERY interleaving: never two owners, and an owner as "
        "soon as anyone passed the first controller), C20_addproc_moves (that process and only it, in every controller of the handle, also for "
        "a handle of a pre-existing group), C20_cpu_usage_units / _missing and C20_read_uint_units / _garbage.  Tie on every run: random "
        "histories on the REAL v1 hierarchy of this machine and on a real cgroup2 mount in a private mount namespace (Existing flags, "
        "directories per controller, group of every thread of moved multi-threaded processes) replayed in Coq; 40 rounds x 16 concurrent "
        "creators through handle.New and the package New on both hierarchies; limits read back from the kernel's files; CPU / memory readings "
        "of a child that burns a known amount; 150 synthetic statistics files against the reader models in Coq.  Also: cpuset among the limits, limits read again after another handle was made for the group, reader values compared with the number in the file.",
   note="Partial: rmdir of a group that still has sub-groups or processes fails in the kernel and is not modelled (the histories only "
        "destroy empty leaf groups); the v2 controller files do not exist on this machine (controllers are bound to v1), so the v2 readers are "
        "tied on synthetic directories through the verif hook; tokenisation of file contents is done by the driver.  Trusted: Coq kernel + vm_compute.",
   technique="Coq proof by induction over histories and over all interleavings of concurrent creators (ghost ownership invariant) + replay of real cgroup histories on v1 and v2 hierarchies",
   design="§5 C20"),
 "C05": dict(
   text="Kernel/Mount.v: declared mounts (kind, source, target, flag word), the kernel's rules for mount / bind / recursive bind / "
        "MS_REMOUNT|MS_BIND / pivot_root + detach, `mount_one` (mount, then the read-only remount iff BIND|RDONLY - both implementations) "
        "and `build_table` (tmpfs root, entries in order, pivot, root remount).  Theorems: C05_table (for EVERY mount list and whatever "
        "table the process had before, the new table is the read-only root plus exactly the mounts of the declared entries in order; "
        "nothing of the old root), C05_readonly_top (every entry declared read-only is read-only at its mount point, for every flag "
        "word - bit-level lemma on BIND|RDONLY), C05_readonly_partial (and everywhere below when the source holds no mounts), "
        "C05_readonly_refuted (known finding), C05_writable_only_declared, C05_builder_flags.  Tie on every run: 40 generated mount "
        "tables x {namespace runner, container, container with InitCommand}; /proc/<pid>/mountinfo of the sandboxed process compared in "
        "Coq with build_table; a probe inside lists /, looks for the old root, writes into every mount and into /, reads a masked path.  The probe also reports inherited directory descriptors.",
   note="Partial: mount semantics are the kernel model, validated by mountinfo and the probe on every run; masked paths are checked "
        "through the probe only; the mkdir / mknod of mount points is not modelled (a wrong one makes the mount fail, which the runs "
        "report).  Trusted: Coq kernel + vm_compute.",
   technique="Coq proof over all mount lists and flag words (list induction, bit-level lemmas) + differential comparison of real mount tables from both implementations",
   design="§5 C05"),
 "C04": dict(
   text="Launch/SecState.v: the option record, `child_steps` (the security-relevant syscalls the child issues, with the three differently "
        "ordered copies of the cap-drop / seccomp / sync code written out), the kernel's credential rules (`apply`: securebits, setuid fix-up, "
        "capset, no_new_privs, seccomp needing nnp or CAP_SYS_ADMIN, exec without file capabilities) and `state_at_exec`.  Theorems: "
        "C04_state_at_exec (for EVERY combination of credential / ids / groups / NoSetGroups / gid-map policy / drop-caps / nnp / seccomp / "
        "ptrace / stop / sync / unshare-cgroup-after-sync / work dir / host / domain the sequence runs through and the target starts with "
        "empty capability sets and NOROOT locked iff a credential or cap dropping was requested, nnp iff requested or a filter is given, "
        "exactly one filter iff given, the requested ids and groups, its own session, the requested cwd / names, a new cgroup namespace iff "
        "requested) and C04_no_step_lost (each step exactly once when requested, never otherwise, exec last).  Tie on every run: the state "
        "probe launched by pkg/forkexec under ALL 512 combinations of the nine interacting options crossed with random draws of the others; "
        "the harness is parent and tracer; self-report compared in Coq with state_at_exec and by an independent oracle with the property; "
        "refused id maps / denied setgroups must fail without running the target.  Also a launcher without CAP_SETPCAP (the secure bits cannot be locked: the launch has to be refused).",
   note="Partial: the kernel's credential rules are the model's assumptions, validated against the probe on every run; namespace creation "
        "by clone flags is checked by the oracle only; descriptor, mount and rlimit steps are C06 / C05 / C08.  Trusted: Coq kernel + vm_compute.",
   technique="Coq proof by exhaustive case analysis over all option combinations with symbolic identities + exhaustive differential launches of a state probe",
   design="§5 C04"),
 "C03": dict(
   text="The traced program, the kernel's ptrace rules and the tracer as one system in Coq (Tracer/Enforce.v): any number of tasks, arbitrary "
        "event streams (traced syscalls, fork / vfork / clone, exits, the tracer's waits in any order), an arbitrary decision function into "
        "{allow, ban, kill}; the tracer's reaction is `handle` of Verdict/Status.v itself - the function compared with the code.  Theorem "
        "C03_enforced (invariant by induction over the event stream): a traced syscall executes only if the decision was allow; a banned "
        "one never executes and returns -BanRet; an allowed one has executed when the tracer waits again; a kill ends the run as "
        "Disallowed Syscall with the syscall not executed and every task gone; every task ever created carries the options.  "
        "C03_filter_kill from the verdict table.  Tie on every run: ~100 really traced trees of forked / vforked processes and threads "
        "issuing marker syscalls with decisions by marker name, 160 kill-verdict runs under 16-way CPU contention, runs under a killing "
        "filter (kill issued by the main thread / a second thread, each with a control run), a later run whose main process gets the pid of an "
        "earlier run's live descendant (private pid namespace, small pid_max); the program's own record of return values, the directories that exist afterwards, the verdict, and the tracer's own "
        "event log (waits and ptrace requests, verif hook) replayed in Coq against `handle` for every run.  Also calls with two pathnames (rename, renameat2, linkat) under all nine pairs of decisions.",
   note="Partial: the kernel's ptrace rules (a task in seccomp-stop does nothing until restarted; orig_rax = -1 skips; SIGKILL of a stopped task "
        "discards its pending syscall; auto-attach with inherited options) are the model's assumptions, exercised on every run and not proved; "
        "ESRCH races are C15's.  Trusted: Coq kernel + vm_compute.",
   technique="Coq proof of an invariant over all event streams of the composed tracer / kernel / program system + replay of real tracer logs against the model's handle",
   design="§5 C03"),
 "C02": dict(
   text="Path resolution as executable Gallina over arbitrary forests (functions from canonical paths to Dir | File | Link abs target): the "
        "kernel's walk (`kwalk` / `kres`: component by component, '..' applied to the directory reached, links expanded in place, 40-link "
        "limit, follow / no-follow of the last component) and the code's (`cwalk` / `cres` / `presented`: resolveTraceePathOnce, the 40 rounds "
        "and the final Clean of resolveTraceePath, absPath / absPathAt base selection).  Theorems: C02_presented_path (for EVERY forest, base "
        "directory and pathname, if the kernel's resolution succeeds the presented path is the object it reaches - by induction on the "
        "number of links with a simulation lemma per walk), C02_presented_path_proc + C02_proc_special_ok (the same with /proc/self and "
        "/proc/thread-self, links whose target depends on the reader, for which the code substitutes the tracee's entries), C02_presented_path_nofollow_partial + C02_nofollow_refuted (known finding), "
        "C02_handle_table_abi (argument positions and classes of all 30 rows of Handle = the ABI table), C02_open_class (all flag words: an "
        "open that can create / truncate / write is a write), C02_openat2_failclosed, C02_fdcwd_any_encoding, "
        "C02_dirfd_upper_half_ignored.  Tie on every run: 10 forests on disk x 260 really traced path syscalls with exact register values "
        "(all 26 calls of this architecture, dirfd sign- / zero-extended / garbage upper half, descriptor-relative, after chdir / fchdir, "
        "/proc/self aliases, 43-link chains, loops, dangling links); three-way comparison in Coq of the handler's question, the kernel's own "
        "resolution reported by the program (O_PATH + /proc/self/fd) and the model; classes against class_of (handle_table ..).  Path strings also lie across page boundaries and in PROT_WRITE-only pages; at-flags that do not change the designated object accompany non-empty names.",
   note="Partial: of the /proc magic links, self / thread-self and the root links are in the forest model, cwd / fd links are compared "
        "code-against-kernel only; the rows stat64 / lstat64 / fstatat / "
        "fstatat64 of Handle cannot occur on x86-64 and are covered by the table theorem only; reading the pathname from tracee memory is C15's "
        "GetString.  Trusted: Coq kernel + vm_compute; the kernel's resolution is an assumption validated on every run.",
   technique="Coq proof by induction (simulation of the kernel's path walk by the code's, for all forests and pathnames) + three-way differential runs through a real tracer",
   design="§5 C02"),
 "C13": dict(
   text="Reset and the sealed executable as executable Gallina: trees of typed entries with arbitrary names / depths / permission bits, "
        "`populate` (any history of creations), `remove_contents` (list the names, remove each entry whatever it is) and `reset` (every "
        "tmpfs mount); io.Reader as the sequence of its Read results (bytes with nil / EOF / error, empty reads), `copy_all` (File.ReadFrom), "
        "`dup_to_memfd`, and the kernel's answer to every modification attempt under the seal set the code applies.  Theorems: "
        "C13_remove_contents_empty, C13_reset_empties (all histories, all mounts), C13_memfd_content (exactly the supplied bytes for every "
        "chunking incl. bytes returned together with EOF, position 0, sealed; no file when the reader fails), C13_memfd_immutable (all "
        "attempt sequences), C13_rw_bind_not_reset (known finding).  Tie on every run: ~60 pool cycles of hostile programs in a real "
        "container (000 directories, dangling links, FIFOs, sockets, hard links, hostile names, 20000 entries, chains deeper than PATH_MAX) "
        "viewed from the host through /proc/<init>/root and by a later program, compared with populate / reset in Coq; ~350 DupToMemfd "
        "cases (10 reader kinds x sizes around page / buffer boundaries, scripted chunkings, failing readers) with content, position, seals "
        "and every modification attempt by a holder and by the program executed from the file, scripted ones compared in Coq byte by byte.  Readers whose beginning was already consumed (files, byte readers, section readers); deep chains under a small descriptor limit of the init.",
   note="Partial: the kernel rules (unlinkat semantics for a caller with CAP_DAC_OVERRIDE and CAP_FOWNER, memfd seals) are the model's "
        "assumptions, exercised on every run and not proved; os.RemoveAll's own recursion is represented by `remove_entry`.  Trusted: Coq kernel + vm_compute.",
   technique="Coq proof by induction over trees, creation histories and reader protocols + differential runs of Reset and DupToMemfd against the model",
   design="§5 C13"),
 "C07": dict(
   text="The launch handshake as an LTS in Coq: parent (Start / syncWithChild / handleChildFailed) || child (id-map wait, the phases before the sync "
        "point, the sync read, exec — each may fail) || the socketpair (one FIFO per direction with EOF when the peer's end is closed) || the "
        "callback || SIGKILL + wait4, for all 8 configurations (user namespace, callback configured, early return).  Theorems for every "
        "reachable state by closed_sound: C07_callback_before_exec (while the callback runs the child is blocked at the sync point, nothing was "
        "exec'ed), C07_exec_needs_approval, C07_failed_never_runs (an error return: the target never ran, the child is reaped, the error is the "
        "clone error, the callback's error, or names the step the child failed at), C07_success_means_execed, C07_no_deadlock, "
        "C07_launcher_death (the launcher may die at any point after the clone: the target is still never exec'ed without the ack and a "
        "child blocked on the socket is woken by the end of file); "
        "C07_early_return_swallows_failure is the known finding for the configurations that return before exec.  Tie on every run: ~150 real "
        "launches with a fault induced at each reachable step by real inputs x callback {none, ok, failing} x user namespace, plus descriptor "
        "lists of 3..39 entries with a failing exec, traced launches (no filter) with failing steps, launches whose launching process is "
        "killed inside the callback; inside the callback the pid's image / state / parent and the target's marker file; after "
        "the return wait4(-1) = ECHILD and the ChildError location and index; every outcome must be a terminal outcome of the LTS (in Coq).",
   note="Partial: signal delivery latency is not modelled (the kill is atomic with the wait in the LTS).  The container relay of the pid "
        "(SCM_CREDENTIALS translation, rule SK3) is exercised by the C10/C11/C16 runs, not modelled here.  Trusted: Coq kernel + vm_compute.",
   technique="Coq proof by reflection over a finite LTS per configuration + fault injection by real inputs at every launch step",
   design="§5 C07"),
 "C12": dict(
   text="Theorems in Coq over a model of process trees (unbounded sequences of fork / exit / leave-the-group actions): C12_ptrace_teardown (for EVERY "
        "tree a program can build while the policy refuses setsid/setpgid, killAll(-pgid) + collectZombie leaves no task alive and none "
        "unreaped; by induction over the action list), C12_detached_survives_group_kill (the hypothesis is needed), C12_namespace_teardown (the "
        "death of a pid-namespace init leaves no task alive whatever the tree did); on the RPC and batch models: "
        "C12_nothing_in_flight_at_return (at every return of an environment call no reply is left and at most the one kill the container "
        "consumes), C12_open_reply_descriptors_closed.  Tie on every run: histories of 20 (thorough 200) operations in one host process — "
        "cancelled runs of 7-task trees ignoring all signals (own sessions in the pid-namespace runners) in all three runners, every Execve "
        "failure class, Open batches, launches failing at clone and at exec, Build/Destroy, Build failing after the container started — with the "
        "descriptors, goroutines and children of the host, the descriptors and children of the container init and every process carrying the "
        "history's token counted before and after; a per-operation watchdog.  Failing container runs carry descriptors; some runs use a context that is never cancelled.",
   note="Partial: the counts of the real system are measured, not proved; the kernel rules PR1, PR3, PR5, PT2 carry the process-tree theorems.  "
        "One defect of the pinned tree (Build leaking the started container) was repaired by a fix: commit.",
   technique="Coq proof by induction over program action lists (process-tree model) + residue measurement after real histories",
   design="§5 C12"),
 "C16": dict(
   text="C16_socket_eof_ends_init: on the RPC LTS of C10, from EVERY reachable state (idle or any point of any operation, any interleaving), once "
        "the container has noticed that the socket is gone its own steps bring the init to its exit within 4 steps (verified ranking check): the "
        "init never waits on anything that is not guarded by done; C16_resumed_implies_options_set: in the tracer model a stop is answered with "
        "PTRACE_CONT only for a task on which PTRACE_SETOPTIONS (with PTRACE_O_EXITKILL) succeeded first; C16_traced_launch_dies_with_tracer: in the "
        "launch model (child || tracer || the kernel's rules for a tracee whose tracer dies) with the tracer killed at ANY moment, the program's code "
        "never runs with the tracer dead, nothing is left behind stopped, and a child that has not yet asked for the parent-death signal notices that "
        "its launcher is gone; C16_without_pdeathsig_refuted exhibits both failures for the pinned sequence (repaired in /repo).  The conclusion 'every sandboxed "
        "process dies' then rests on the kernel rules named below.  Tie on every run: a helper controller brings a sandbox to 8 crash points "
        "(idle, program running with sync before / after exec, inside the sync callback, after a call that left descendants, during file "
        "operations, while the init runs its InitCommand — where only the parent-death signal helps —, a traced process tree) and is SIGKILLed "
        "there with 0..200 ms delay; the programs are trees of 7 tasks ignoring every signal; within 3 s neither the init nor any process "
        "carrying the run's token may exist.  The controller is also killed while its tracer stands at each step of the launch and of the run (debug steps; what is left is compared in Coq with the launch model's prediction), and idle after a traced run whose descendants left the process group.",
   note="Partial: the parent-death signal (PR4), 'death of a pid-namespace init kills the namespace' (PR3), PTRACE_O_EXITKILL (PT4), option "
        "inheritance by auto-attached children (PT2) and EOF on the socket (SK4) are kernel rules, exercised by the crash-point runs, not proved.  "
        "States in which the init is blocked outside a select (InitCommand, waiting for a killed child) are covered by the runs only.",
   technique="Coq proof by reflection (ranking check on the RPC LTS; case analysis of the tracer step) + enumeration of controller crash points on the real system",
   design="§5 C16"),
 "C11": dict(
   text="Two LTSs in Coq, safety by closed_sound and bounded return by a verified ranking check, for every reachable state (every cancellation "
        "instant, every interleaving): (1) child || context || canceller || wait loop of the ptrace and namespace runners — C11_cancel_not_lost "
        "(once the canceller has acted the program is dead, also when the cancellation arrives before the child's setsid), C11_cancel_truthful "
        "(the verdict is the program's own iff it ended by itself, else Time Limit Exceeded; never Runner Error), C11_cancel_returns (<= 5 system "
        "steps); the loss of the pinned tree is C11_pinned_cancel_lost, repaired by a fix: commit; (2) the RPC LTS of C10 — "
        "C11_cancel_returns_container (a cancelled Execve comes back within 4 steps of host and container whatever the program does) and "
        "C11_destroy_in_flight.  Tie on every run: cancellation swept over the life of a run in each runner (before the call .. around the "
        "program's own end), the pre-setsid window widened with a 9000-entry descriptor list, cancellation after the program's end (genuine "
        "verdict must survive), Destroy 1..100 ms into an Execve; elapsed time, Result, liveness of the program.",
   note="Partial: 'promptly' is 'within a bounded number of model steps' in the theorems and 'within 60 ms of the cancellation' in the runs; "
        "signal delivery latency and the scheduler are not modelled.  Trusted: Coq kernel + vm_compute; kernel rule PR1 (kill(-pgid) reaches "
        "exactly the members of an existing group, ESRCH otherwise); PR3 for Destroy.",
   technique="Coq proof by reflection over finite LTSs (closure + ranking checks) + swept real cancellations",
   design="§5 C11"),
 "C10": dict(
   text="The host/container RPC as one labelled transition system in Coq (host call automaton, container server automaton, one FIFO per "
        "direction, the two done flags, ghost call tags on every message; environment: the class of every Execve — refused before fork, empty "
        "argv, failing before sync, exec failing after the acknowledged sync, running — sync before/after exec, callback outcome, program exit, "
        "cancellation, loss of the transport at any moment).  Theorems for EVERY reachable state, i.e. histories of any length and every "
        "interleaving, by reflection (a candidate state set of 3252 states is re-validated by a verified closure check, closed_sound): "
        "C10_no_desync (no reply consumed by another call or in a state that does not expect it; no command interpreted in the wrong state), "
        "C10_container_survives (the container ends only when the environment took the transport away), C10_quiescent_at_return (at every return "
        "no reply is left over and the container serves or will after the one kill the host owed it, whatever the failure class), "
        "C10_transport_loss_fails_fast (rank check: the call in flight returns within three host steps; later calls fail at once).  The two "
        "defects of the pinned tree are theorems about the unfixed variant and were repaired by fix: commits; the oversize request is a known "
        "finding.  Tie on every run: 40 (thorough 400) random histories of up to 30 calls on a real environment with every failure class; the "
        "wire-level logs of BOTH endpoints (verif-tagged hooks) are replayed in Coq against host_steps / cont_steps themselves; every answer "
        "is checked against its call's class; Ping and Execve(/bin/true) after every history; a per-call watchdog.  Every eighth environment has a file bound below each tmpfs mount, so that Reset fails on two mounts and has to say so exactly once.",
   note="Trusted: Coq kernel + vm_compute; FIFO delivery (SK1) and the capacity-1 channels abstracted to one queue per direction; Go's select "
        "as nondeterministic choice; the injective state code (Base/Code.v, proved prefix free).  Open/Delete/Symlink/Reset/Ping are one "
        "'simple call' kind in the LTS (their payloads are C14's subject).",
   technique="Coq proof by reflection over a finite LTS (verified closure + ranking checks lifted by closed_sound) + replay of both endpoints' wire logs through the LTS step functions",
   design="§5 C10, Appendix B"),
 "C19": dict(
   text="Theorems in Coq: C19_oob_roundtrip — a byte-level model of the control data (cmsghdr, 8-byte alignment, SCM_RIGHTS / SCM_CREDENTIALS as "
        "syscall.UnixRights/UnixCredentials produce them; ParseSocketControlMessage + parseMsg) round-trips for EVERY descriptor list and credential "
        "(same descriptors, same order); C19_whole_or_error and C19_rejected_not_leaked over a model of SEQPACKET delivery with payload / control "
        "truncation (a receive returns the sent message or an error, and every descriptor the kernel installed for a rejected message is closed; "
        "the leak of the pinned tree is kept as C19_rejected_leaked_on_pinned and was repaired by a fix: commit); C19_framed_delivery (while no "
        "send is rejected the receiver decodes exactly the sent values, in order), C19_oversize_rejected_by_sender, C19_oversize_poisons_stream.  "
        "Tie on every run: Go's encoders and the library's parser on 150 random attachments (bit-exact bytes), 120 raw histories on a real socket "
        "pair (payload 0..65536 vs buffers 1..70000, 0..253 descriptors, credentials, refused sends: identities in order, close-on-exec, Ucred, "
        "descriptor count), 80 typed histories through the protocol's gob-framed socket (first use of each type, oversize, refused sends).  A message that never arrives is reported with its history.",
   note="Three behaviours are listed as known findings (empty payloads at the raw layer; a rejected first-use send poisons the gob stream).  "
        "Trusted: Coq kernel + vm_compute; kernel rules SK1-SK3; encoding/gob abstracted to 'the descriptor of a type travels with its first "
        "value' (validated by the framed histories); SCM_MAX_FD = 253.",
   technique="Coq proof (byte-level codec round trip; delivery/framing models by case analysis and induction over histories) + in-Coq differential evaluation on real sockets",
   design="§5 C19"),
 "C15": dict(
   text="Theorems in Coq: C15_getstring_total / C15_getstring_spec — for EVERY tracee memory (any pages unreadable, any bytes) and every address, the "
        "model of Context.GetString (page-wise vmReadStr with Go's slice-bounds rule as a panic outcome, the PEEKDATA fallback, clen) never panics "
        "and returns exactly the bytes before the first NUL among the readable bytes, at most PATH_MAX; C15_verdict_about_program — with ptrace "
        "requests that succeed or answer ESRCH (what a program can provoke) the tracer's loop reports Runner Error only when the main task exits "
        "before the target was exec'ed; C15_progress — every stop is answered by the end of the run, by exactly one PTRACE_CONT, or the task is "
        "already gone.  The two defects of the pinned tree are kept as a theorem about the unfixed clen and were repaired by two fix: commits.  Tie "
        "on every run: GetString on the harness's own memory with crafted protections / NUL placements / offsets around page boundaries vs the "
        "model in Coq; ptraceHandle.handle with ESRCH answers (C09 run); 21 hostile traced scenarios with every syscall trapping, the three "
        "kill-while-stopped races repeated 60 (thorough 600) times; elapsed time per run.  openat2 with sizes other than 24; a dying runner process is attributed to the scenario that caused it.",
   note="Partial: kernel-level interleavings (which task is killed when) are sampled by the repeated race scenarios, the theorem quantifies over "
        "the request outcomes {ok, ESRCH}.  Trusted: Coq kernel + vm_compute; ptrace rule PT3 (any request may answer ESRCH once the tracee was "
        "killed); process_vm_readv transfers up to the first unreadable page (validated by the crafted-memory runs).",
   technique="Coq proof (induction on the read loop with page arithmetic; exhaustive case analysis of the tracer step) + differential evaluation + hostile traced runs",
   design="§5 C15"),
 "C06": dict(
   text="C06_shuffle, proved in Coq by induction over the list for an executable model of prepareFds / pass 1 / pass 2 over a model of the "
        "kernel's descriptor table: for EVERY descriptor list (length, order, repeats, the close marker, values below or above their slot) and "
        "every placement of the sync socket and of the exec descriptor, the shuffle succeeds, slot k holds the k-th listed open file with "
        "close-on-exec cleared (or is closed), no descriptor at or above the list length survives exec, and the socket and the exec descriptor "
        "still denote their open files (C06_table_at_exec as corollary).  The defect of the pinned tree is kept as a theorem about the unfixed "
        "variant (C06_pipe_clobbers_exec_on_pinned) and was repaired by two fix: commits.  Tie on every run: ~1500 real launches (exhaustive "
        "lists of length <= 3 over {-1,0,1,2,12,13} x exec x socketpair placement x fork/vfork, random lists up to length 24, malformed lists) "
        "with the started probe reporting (dev, inode, flags) of every open descriptor, compared with the model evaluated in Coq; caller's "
        "Runner before/after; second Start; launcher leaks; 2400 concurrent starts.  Programs started inside a container with lists of 0..11 entries and an exec descriptor: exactly the list, nothing of the init.",
   note="Trusted: Coq kernel + vm_compute; kernel rules FD1 (dup3 replaces the target and sets close-on-exec as asked), FD2 (exec closes "
        "exactly the close-on-exec descriptors), FD3; hypothesis of the theorem: every descriptor of the launcher outside the slot range is "
        "close-on-exec at fork time (Go opens everything O_CLOEXEC; the container marks received and inherited descriptors; checked per run "
        "by the probe and under concurrency).  The container layer (closeOnExecFds / closeOnExecAllFds) is exercised by C12/C19 runs.",
   technique="Coq proof by induction over the descriptor list (pass invariants) + in-Coq differential evaluation against real launches",
   design="§5 C06"),
 "C14": dict(
   text="Theorems in Coq about an executable model of the Open batch on both sides of the RPC (container: per-item MkdirAll / lstat / OpenFile with "
        "the descriptor list compacted and the error list full length; host: the lock-step walk): C14_alignment / C14_result_at (for every batch "
        "length and every success/failure pattern the k-th result is the k-th item's), C14_only_regular (a descriptor is returned only for a path "
        "that was absent or a regular file at the check, and it is the one opened for that item), inconsistent replies are errors with every "
        "taken descriptor closed, Symlink alignment.  Tie on every run: 60 (thorough 600) scenarios in a real container where a program plants "
        "regular files, directories, FIFOs, sockets, symlinks (to a secret file, to a directory, dangling) and file-as-parent paths, then random "
        "batches of 0..64 items with 5 flag words and MkdirAll; result classes per index vs the model evaluated in Coq; identity (dev, inode) of "
        "every returned file vs a re-open of the same path, access mode, close-on-exec, the secret untouched, elapsed time; Symlink and Delete "
        "outcomes vs the state; 500 (thorough 3000) rounds of 250-item create/read-back batches on one environment.",
   note="Trusted: Coq kernel + vm_compute; the per-item facts (lstat kind, success of mkdir/open) enter the model as data derived by the driver from "
        "the planted state (validated by the kinds probe after each history); os.* semantics; gob/socket transport is C19's subject.",
   technique="Coq proof (induction over the batch) + in-Coq differential evaluation against a real container with planted file-system states",
   design="§5 C14"),
 "C08": dict(
   text="Theorems in Coq about executable models of PrepareRLimit (C08_rlimit_values: an entry iff configured, soft = hard = configured, CPU hard = "
        "max(CPUHard, CPU), full 64-bit values; once per resource), of the prlimit64 loop in the child (C08_limits_in_force: configured resources "
        "exactly as configured, every other resource inherited; C08_limits_refusal: a refused entry stops the launch with its index), of the usage "
        "comparison (Memory wins over Time; overrides any wait status in the ptrace and namespace runners), of the limit signals (SIGXCPU/SIGKILL -> "
        "TLE, SIGXFSZ -> OLE on death in all three classifiers and at the ptrace signal-delivery stop) and of the output collector (C08_pipe_cap: "
        "exactly the first min(max+1, n) bytes for every chunking; C08_pipe_drains: every byte is consumed; MaxInt64 wrap).  Tie on every run: "
        "PrepareRLimit on 400 records, the sandboxed program's own getrlimit report for random records in the three runners (incl. values above "
        "2^32 and refused records without privilege), pipe.NewBuffer against fast / huge / slow writers, CPU / file-size / memory exhaustion runs.",
   note="Trusted: Coq kernel + vm_compute; that the kernel enforces a limit once set, and its acceptance rule for prlimit64 (an oracle parameter of "
        "the model; the unprivileged rule is validated by the refused-record runs); the init of a pid namespace ignores SIGXFSZ/SIGXCPU (namespace "
        "runner expectations).  The container runner has no time/memory bound of its own (it returns the measurements).",
   technique="Coq proof (case analysis, induction over entry lists and chunk lists) + in-Coq differential evaluation + real runs under limits",
   design="§5 C08"),
 "C01": dict(
   text="A verified validator: C01_filter_sound proves in Coq that any cBPF program accepted by check_filter returns the policy's verdict for "
        "EVERY seccomp_data (all syscall numbers, all architecture words, arbitrary ip/argument words; the proof is by comparison-signature "
        "representatives, no bound on program or policy size).  On every run the real Builder.Build is executed on boundary-size policies around "
        "the 255-instruction jump horizon, the full 380-name table, random and malformed policies, re-splits and repeats of one name sequence "
        "(Build must be a function of its input) and runprog's 16 shipped configurations; in Coq (vm_compute) each real filter must (a) be "
        "bit-identical to the Gallina port `build` of Builder.Build/Policy.Assemble/Program.Assemble(long-jump rewriting)/bpf.Assemble/sockFilter "
        "and (b) pass check_filter for the declared policy, which by the theorem is a proof for that filter over its whole input space.  "
        "C01_build_correct proves the port correct once and for all for EVERY policy, any list lengths: C01_assemble_closed_form gives the output "
        "of Program.Assemble, long-jump rewriting included, in closed form (chunks of 255 comparisons, each followed by a copy of the group's "
        "return), by an invariant carried through every insertion, and the filter's semantics is proved with both prologue forms.  Filters returned by earlier "
        "Builds of one long-lived Builder are held and read again after all later Builds.  Further theorems: fail-closed actions, foreign ABI / x32, unknown names never build, cleanTrace (trace precedence, disjoint, duplicate-free).",
   note="The theorems are about the Gallina port `build`; that the port is Builder.Build is what the bit-exact comparison of every built filter "
        "checks on every run (policies up to the full table, around every jump horizon), and the validator re-proves each real filter independently.  Trusted: Coq kernel + vm_compute; cBPF semantics of the fragment "
        "(ld abs nr/arch, jeq/jgt/jge k, ja, ret) as modelled in Seccomp/Bpf.v; kernel action constants; the syscall table is data dumped from "
        "go-seccomp-bpf on every run; Python cBPF interpreter as independent oracle.",
   technique="Coq proof of the assembler port for all policies (closed form + invariant over the long-jump insertions) and of a reflective validator (translation validation of each built filter inside Coq) + bit-exact comparison of port and code",
   design="§5 C01"),
 "C09": dict(
   text="Theorems in Coq about executable models of the three classifiers (container: convertReply;convertReplyResult, namespace runner: the "
        "wait-loop body, ptrace runner: Tracer.trace loop body with ptraceHandle.handle) and of Go's WaitStatus decoding: for every exit code "
        "0..255 and every signal 1..126 (with and without the core bit) each classifier returns the README table's status and exit value "
        "(C09_*_table_exit / _signal), a fatal signal reaching a traced task through a signal-delivery stop is handed back to it "
        "(C09_ptrace_signal_delivery, SIGTRAP included since the fix), deaths of secondary tasks never end the run (C09_children_irrelevant), "
        "Runner Error always carries an explanation (three theorems).  Tie on every run: all 65536 low wait-status words and random words "
        "with event bits through the exported container conversion, ptraceHandle.handle on generated (state, pid, word) triples, checkUsage, "
        "and real runs of exit(n) / every default-fatal signal / synchronous faults / external SIGKILL in the ptrace, namespace and container "
        "(sync before and after exec) runners, each compared with the model evaluated in Coq and with the README table.  Also a main task that stops and is continued by its child, and deaths with a core file written (core flag in the status word).",
   note="Trusted: Coq kernel + vm_compute (finite sweeps over 256 exit codes / 127 signals are lifted with forallb_forall, bounds in the "
        "statements); kernel rules: the wait-status encoding, signal-delivery stops of traced tasks (PT5), a pid-namespace init ignores "
        "self-sent default-action signals (so the namespace runner is exercised with faults and external SIGKILL only). The exit value of "
        "TLE/OLE/Disallowed verdicts is not defined by the table and not compared by the oracle.",
   technique="Coq proof (finite sweeps lifted to universally quantified statements + case analysis) + in-Coq differential evaluation + real runs",
   design="§5 C09"),
 "C18": dict(
   text="Theorems in Coq about an executable model of FileSet.IsInSetSmart, the FileSets cascade, Handler.Check* and SyscallCounter: "
        "C18_smart_iff / C18_smart_general characterise the matcher for every set and every path (unbounded length and depth) against the "
        "independent definition Covered; C18_cascade, C18_refusal, C18_counter (budget for every history below the 64-bit wrap), "
        "C18_counter_refused_stays, C18_uncounted_banned.  Two refutations are proved with witnesses and recorded as known findings "
        "(relative query names; MinInt64 budget).  The model is tied to /repo on every run by evaluating it inside Coq (vm_compute) on the "
        "same inputs as the exported Go methods: an exhaustive grid (all sets over a 7-entry pool x SystemRoot x all paths over {a,b,/,*} up "
        "to length 5; thorough: 10 entries, length 6), random long paths, cascade cases over a symlink farm, Add* sequences and counter histories.",
   note="Trusted: Coq kernel + vm_compute; the Go harness/Python driver that feed both sides; realPath (filepath.EvalSymlinks) is a Section "
        "variable of the model (any function) and observed through the same stdlib call in the harness; AddRange is modelled for absolute "
        "names only; Go maps as association lists.",
   technique="Coq proof (induction over the dirname chain / over call histories) + in-Coq differential evaluation against the Go methods",
   design="§5 C18"),
}

PENDING_REASON = "not claimed yet: the Coq model, theorems and correspondence check for this property are still being built in this session (see DESIGN.md §5 for the plan)"

def main():
    props = [json.loads(l) for l in open(os.path.join(ROOT, "properties.jsonl"))]
    hooks_commits = []
    hc = os.path.join(ROOT, "hooks_commits.txt")
    if os.path.exists(hc):
        hooks_commits = [l.split()[0] for l in open(hc) if l.strip()]
    m = {
      "version": 1,
      "setup_cmd": "./setup.sh",
      "hooks": {
        "guard": "verif",
        "enable": "go1.26 build -tags verif (the harness under /verif/harness is built against /repo's working tree through a replace directive)",
        "baseline_off_cmd": "cd /repo && GOFLAGS=-mod=mod GOPROXY=off GOSUMDB=off GOTOOLCHAIN=local go1.26 test -json -vet=off -count=1 -timeout 25m ./...",
        "source_commits": hooks_commits,
        "add_only": True,
      },
      "engines": [{"name": "coq-gs", "path": "coq/", "serves_properties": sorted(CLAIMED),
                   "kind_free_text": "Coq 8.16.1 development (models, proofs, Properties/Cnn.v) + Go harness + Python driver ./check"}],
      "checks": [], "not_applicable": [],
      "notes": "All checks: ./check <ID> --tier quick|thorough; VERIF_SEED and VERIF_TIER are honoured; replays under replays/<ID>/; known findings in known_findings.json.",
    }
    for p in props:
        i = p["id"]
        if i in CLAIMED:
            c = CLAIMED[i]
            m["checks"].append({
              "property_id": i,
              "quick_cmd": "./check %s --tier quick" % i,
              "thorough_cmd": "./check %s --tier thorough" % i,
              "evidence_file": "evidence/%s.json" % i,
              "replay_cmd_template": "./check %s --replay {path}" % i,
              "engine": "coq-gs",
              "level_claimed": {"category": "proof", "text": c["text"] + EXTRA.get(i, "") + EXTRA7.get(i, "") + EXTRA6.get(i, ""), "design_ref": c["design"]},
              "level_note": c["note"] + ("  Source translation: trusted are tools/goxlate (syntax directed, refuses what it does not know), the IR interpreter's reading of Go statements, and the kernel oracle; the theorems hold on the stated finite option domains (proved by evaluation in Coq, sixteen shards), not for option values outside them (representative numbers stand for descriptor numbers and ids)." if i in EXTRA6 else ""),
              "technique": c["technique"] + (" + translation of the launch code (Go AST -> Gallina IR) re-proved against the specification on every run" if i in EXTRA6 else ""),
            })
        else:
            m["not_applicable"].append({"property_id": i, "reason": PENDING_REASON})
    with open(os.path.join(ROOT, "MANIFEST.json"), "w") as f:
        json.dump(m, f, indent=1)
        f.write("\n")

main()

#!/usr/bin/env python3
"""tools/seed_verify.py <ID> <K> : archive a sub-agent's seeded change under seeded/<ID>-<K>/ and confirm it in a
scratch worktree of /repo's HEAD: applies, builds, suite passes, demonstration fails with it and passes without."""
import json, os, re, shutil, subprocess, sys
ROOT = os.path.dirname(os.path.dirname(os.path.abspath(__file__)))
ENV = dict(os.environ, GOFLAGS="-mod=mod", GOPROXY="off", GOSUMDB="off", GOTOOLCHAIN="local")

def sh(cmd, cwd=None, timeout=1800):
    p = subprocess.run(cmd, shell=True, cwd=cwd, env=ENV, stdout=subprocess.PIPE, stderr=subprocess.STDOUT, timeout=timeout)
    return p.returncode, p.stdout.decode(errors="replace")

def failed(rc, out):
    return rc != 0 or re.search(r'^(--- FAIL|FAIL\b|panic:)', out, re.M) is not None

def main():
    pid, k = sys.argv[1], sys.argv[2]
    srcroot = sys.argv[3] if len(sys.argv) > 3 else "/tmp/wtout"
    wtroot = sys.argv[4] if len(sys.argv) > 4 else "/tmp/wt"
    src = "%s/%s/%s" % (srcroot, pid, k)
    dst = os.path.join(ROOT, "seeded", "%s-%s" % (pid, k))
    if os.path.isdir(src):
        shutil.rmtree(dst, ignore_errors=True)
        shutil.copytree(src, dst)
    meta = json.load(open(os.path.join(dst, "meta.json")))
    demo = meta["demo_cmd"].replace(src, dst).replace("%s/%s" % (wtroot, pid), "$WT")
    # demonstrations that are stand-alone modules point at the agent's worktree in their go.mod
    for root, _, files in os.walk(dst):
        for fn in files:
            if fn == "go.mod":
                fp = os.path.join(root, fn)
                t = open(fp).read()
                if "%s/%s" % (wtroot, pid) in t:
                    open(fp, "w").write(t.replace("%s/%s" % (wtroot, pid), "WORKTREE_PLACEHOLDER"))
    meta["demo_cmd"] = demo
    wt = "/tmp/wtv/verify-%s-%s" % (pid, k)
    os.makedirs("/tmp/wtv", exist_ok=True)
    sh("git -C /repo worktree remove --force %s" % wt)
    rc, out = sh("git -C /repo worktree add -q --detach %s HEAD" % wt)
    assert rc == 0, out
    res = {}
    # point stand-alone demonstration modules at the verification worktree
    patched = []
    for root, _, files in os.walk(dst):
        for fn in files:
            if fn == "go.mod":
                fp = os.path.join(root, fn)
                t = open(fp).read()
                if "WORKTREE_PLACEHOLDER" in t:
                    open(fp, "w").write(t.replace("WORKTREE_PLACEHOLDER", wt))
                    patched.append(fp)
    try:
        rc, out = sh("git apply %s/patch.diff" % dst, cwd=wt)
        res["applies_to_repo_head"] = rc == 0
        if rc != 0:
            res["apply_output"] = out[-1000:]
        else:
            rc, out = sh("go1.26 build ./... && go1.26 build -tags verif ./...", cwd=wt)
            res["builds"] = rc == 0
            rc, out = sh("go1.26 test -vet=off -count=1 ./... 2>&1 | grep -E '^(--- FAIL|FAIL|ok|panic)' ", cwd=wt)
            fails = [l for l in out.splitlines() if l.startswith("--- FAIL") or l.startswith("FAIL\t")]
            res["suite_failures"] = fails
            res["suite_passes_except_TestCgroupAll"] = all("TestCgroupAll" in l or "pkg/cgroup" in l for l in fails)
            rc, out = sh(demo.replace("$WT", wt), cwd=wt, timeout=1800)
            res["demo_with_change_rc"] = rc
            res["demo_with_change_failed"] = failed(rc, out)
            res["demo_with_change_tail"] = out[-1500:]
            sh("git checkout -- . && git clean -fdq", cwd=wt)
            rc, out = sh(demo.replace("$WT", wt), cwd=wt, timeout=1800)
            res["demo_without_change_rc"] = rc
            res["demo_without_change_failed"] = failed(rc, out)
            res["demo_without_change_tail"] = out[-600:]
            res["confirmed"] = bool(res["builds"] and res["suite_passes_except_TestCgroupAll"]
                                    and res["demo_with_change_failed"] and not res["demo_without_change_failed"])
    finally:
        sh("git -C /repo worktree remove --force %s" % wt)
        for fp in patched:
            open(fp, "w").write(open(fp).read().replace(wt, "WORKTREE_PLACEHOLDER"))
    meta["confirmed_by_me"] = res
    json.dump(meta, open(os.path.join(dst, "meta.json"), "w"), indent=1)
    print(pid, k, "confirmed" if res.get("confirmed") else "NOT CONFIRMED", json.dumps({a: b for a, b in res.items() if "tail" not in a}))

main()

"""Shared machinery of the checks: builds, Coq evaluation, evidence, replays,
known findings.  Every check is  ./check <ID> --tier quick|thorough  and ends
through Check.finish()."""
import fcntl
import hashlib
import json
import os
import random
import re
import shutil
import subprocess
import sys
import time

ROOT = os.path.dirname(os.path.dirname(os.path.abspath(__file__)))
REPO = os.environ.get("VERIF_REPO", "/repo")
BUILD = os.path.join(ROOT, "build")
COQ = os.path.join(ROOT, "coq")
HARNESS = os.path.join(ROOT, "harness")

GOENV = dict(os.environ)
GOENV.update({
    "GOFLAGS": "-mod=mod", "GOPROXY": "off", "GOSUMDB": "off",
    "GOTOOLCHAIN": "local", "CGO_ENABLED": "0",
})

TRUSTED_COMMON = [
    "Coq 8.16.1 kernel including the vm_compute virtual machine (no native_compute)",
    "no axioms: every property theorem is 'Closed under the global context' (Print Assumptions parsed on every run)",
    "hand-written Gallina model tied to /repo by the correspondence run of this check (Go harness, Python driver, canonicalisers)",
    "Go compiler/runtime/stdlib and the Linux kernel are modelled, not verified",
]


class Lock:
    def __init__(self, name):
        os.makedirs(BUILD, exist_ok=True)
        self.path = os.path.join(BUILD, "." + name + ".lock")

    def __enter__(self):
        self.f = open(self.path, "w")
        fcntl.flock(self.f, fcntl.LOCK_EX)
        return self

    def __exit__(self, *a):
        fcntl.flock(self.f, fcntl.LOCK_UN)
        self.f.close()


def run(cmd, timeout=600, cwd=None, env=None, input=None, check=False):
    p = subprocess.run(cmd, cwd=cwd, env=env, input=input, timeout=timeout,
                       stdout=subprocess.PIPE, stderr=subprocess.PIPE,
                       shell=isinstance(cmd, str))
    if check and p.returncode != 0:
        raise RuntimeError("command failed (%d): %s\n%s\n%s" % (
            p.returncode, cmd, p.stdout.decode(errors="replace")[-4000:],
            p.stderr.decode(errors="replace")[-4000:]))
    return p


# ---------------------------------------------------------------- Coq literals
_PRINTABLE = set(range(32, 127)) - {ord('"')}


def coq_str(b):
    """A Go string (bytes or str) as a Gallina term of type str = list byte."""
    if isinstance(b, str):
        b = b.encode("utf-8", errors="surrogateescape")
    if len(b) == 0:
        return "[]"
    if all(x in _PRINTABLE for x in b):
        return '(s "%s")' % b.decode("ascii")
    return "[" + ";".join("x%02x" % x for x in b) + "]"


def coq_list(items):
    return "[" + "; ".join(items) + "]"


def coq_bool(b):
    return "true" if b else "false"


def coq_Z(n):
    return "(%d)%%Z" % n


def coq_N(n):
    assert n >= 0
    return "%d%%N" % n


def coq_opt(x, f):
    return "None" if x is None else "(Some %s)" % f(x)


# ---------------------------------------------------------------- the check
class Check:
    def __init__(self, pid, tier, seed, replay=None):
        self.id = pid
        self.tier = tier
        self.seed = seed
        self.replay = replay
        self.t0 = time.time()
        self.violations = []
        self.vclasses = {}
        self.known_printed = []
        self.cov = {}
        self.assumptions = []
        self.trusted = list(TRUSTED_COMMON)
        self.checker_cmds = []
        self.obligations = 0
        self.discharged = 0
        self.theorems = []
        self.tmpdirs = []
        shutil.rmtree(os.path.join(ROOT, "replays", pid), ignore_errors=True)
        # one work directory per run (two runs of one property may overlap); directories of runs that are gone are removed
        wroot = os.path.join(BUILD, "work")
        os.makedirs(wroot, exist_ok=True)
        for d in os.listdir(wroot):
            if d == pid or d.startswith(pid + "."):
                owner = d.rsplit(".", 1)[-1]
                if not (owner.isdigit() and os.path.exists("/proc/" + owner)):
                    shutil.rmtree(os.path.join(wroot, d), ignore_errors=True)
        self.work = os.path.join(wroot, "%s.%d" % (pid, os.getpid()))
        os.makedirs(self.work, exist_ok=True)
        self.samples = []
        self.evaluations = 0
        self.nontrivial = set()
        self.dist = {}
        kf = os.path.join(ROOT, "known_findings.json")
        self.known = json.load(open(kf)) if os.path.exists(kf) else {"findings": [], "fixed": []}
        self.known_stale = set(f["id"] for f in self.known["findings"] if f["property"] == pid)

    # ---- randomness: one seed, named substreams
    def rng(self, name):
        h = hashlib.sha256(("%d/%s/%s" % (self.seed, self.id, name)).encode()).digest()
        return random.Random(int.from_bytes(h[:8], "big"))

    def quick(self):
        return self.tier == "quick"

    def log(self, *a):
        print("[%s %5.1fs]" % (self.id, time.time() - self.t0), *a, file=sys.stderr, flush=True)

    # ---- bookkeeping for the evidence
    def count(self, case_key, nontrivial=True, klass=None):
        self.evaluations += 1
        if nontrivial:
            self.nontrivial.add(hashlib.sha1(repr(case_key).encode()).hexdigest())
        if klass is not None:
            self.dist[klass] = self.dist.get(klass, 0) + 1

    def sample(self, x, limit=5):
        if len(self.samples) < limit:
            self.samples.append(x)

    # ---- Coq side
    def build_coq(self):
        with Lock("coq"):
            if not os.path.exists(os.path.join(COQ, "Makefile")):
                run(["coq_makefile", "-f", "_CoqProject", "-o", "Makefile"], cwd=COQ, check=True)
            cmd = "timeout 3000 make -j16 -C %s" % COQ
            p = run(cmd, timeout=3100)
            self.checker_cmds.append("coq_makefile -f _CoqProject -o Makefile && make -j16   (in /verif/coq; full .vo build)")
            if p.returncode != 0:
                tail = (p.stdout.decode(errors="replace") + p.stderr.decode(errors="replace"))[-3000:]
                m = re.findall(r'File "\./theories/([^"]+)"', tail)
                self.violation({"kind": "proof-does-not-check", "file": m[-1] if m else "?",
                                "output": tail}, no_input=True)
                return False
        return True

    def property_theorems(self):
        """Re-compile Properties/<id>.v alone, capturing Print Assumptions."""
        import glob
        pdir = os.path.join(COQ, "theories", "Properties")
        srcs = [os.path.join(pdir, self.id + ".v")] + sorted(glob.glob(os.path.join(pdir, self.id + "_*.v")))
        txt = "\n".join(open(x).read() for x in srcs)
        names = re.findall(r'^\s*(?:Theorem|Lemma|Corollary)\s+([A-Za-z0-9_\']+)', txt, re.M)
        printed = re.findall(r'^\s*Print Assumptions\s+([A-Za-z0-9_\']+)\s*\.', txt, re.M)
        bad = re.findall(r'\b(Admitted|admit|Axiom|Parameter|Conjecture|Hypothesis|Variable)\b', txt)
        text, rcs, errs = "", 0, ""
        with Lock("coq"):
            out = os.path.join(self.work, "props")
            os.makedirs(out, exist_ok=True)
            for src in srcs:
                cmd = ["timeout", "600", "coqc", "-Q", os.path.join(COQ, "theories"), "GS",
                       "-o", os.path.join(out, os.path.basename(src) + "o"), src]
                p = run(cmd, timeout=700)
                text += p.stdout.decode(errors="replace")
                errs += p.stderr.decode(errors="replace")
                rcs |= p.returncode
                self.checker_cmds.append("coqc -Q theories GS theories/Properties/%s   (Print Assumptions under every theorem)" % os.path.basename(src))
        closed = text.count("Closed under the global context")
        axioms = re.findall(r'^Axioms:\n((?:.+\n)+)', text, re.M)
        self.obligations = len(names)
        self.theorems = names
        if rcs != 0 or bad or set(printed) != set(names):
            self.discharged = 0
            self.violation({"kind": "property-theorems-do-not-check", "file": "Properties/%s*.v" % self.id,
                            "stderr": errs[-2000:], "forbidden": bad,
                            "unprinted": sorted(set(names) - set(printed))}, no_input=True)
            return False
        self.discharged = closed
        if closed != len(names) or axioms:
            self.violation({"kind": "axioms-present", "print_assumptions": text[-3000:]}, no_input=True)
            return False
        return True

    def coq_eval(self, name, body, timeout=900):
        """Compile a generated cases file against the built model; returns stdout."""
        d = os.path.join(self.work, "cases")
        os.makedirs(d, exist_ok=True)
        path = os.path.join(d, name + ".v")
        with open(path, "w") as f:
            f.write(body)
        cmd = ["timeout", str(timeout), "coqc", "-Q", os.path.join(COQ, "theories"), "GS", path]
        p = run(cmd, timeout=timeout + 30, cwd=d)
        if p.returncode != 0:
            raise RuntimeError("coqc failed on %s:\n%s" % (path, p.stderr.decode(errors="replace")[-3000:]))
        return p.stdout.decode(errors="replace")

    @staticmethod
    def parse_printed(out, ident):
        """The text Coq printed for `Print ident.` (without the type)."""
        m = re.search(r'^%s\s*=\s*(.*?)\n\s*:\s' % re.escape(ident), out, re.S | re.M)
        if not m:
            raise RuntimeError("cannot find %s in Coq output:\n%s" % (ident, out[:2000]))
        return m.group(1)

    @staticmethod
    def parse_nums(text):
        return [int(x) for x in re.findall(r'-?\d+', text)]

    # ---- implementation side
    def build_harness(self, name, tags="verif", race=False, pkg=None):
        """Builds harness/cmd/<name> against /repo's working tree."""
        os.makedirs(os.path.join(BUILD, "bin"), exist_ok=True)
        out = os.path.join(BUILD, "bin", name + ("_race" if race else ""))
        with Lock("go"):
            shutil.copyfile(os.path.join(REPO, "go.sum"), os.path.join(HARNESS, "go.sum"))
            env = dict(GOENV)
            cmd = ["go1.26", "build"]
            if tags:
                cmd += ["-tags", tags]
            if race:
                cmd += ["-race"]
                env["CGO_ENABLED"] = "1"
            cmd += ["-o", out, pkg or ("./cmd/" + name)]
            p = run(cmd, cwd=HARNESS, env=env, timeout=900)
        if p.returncode != 0:
            err = p.stderr.decode(errors="replace")
            # does the plain build of /repo work?
            q = run(["go1.26", "build", "./..."], cwd=REPO, env=GOENV, timeout=900)
            if q.returncode != 0:
                print("cannot build /repo: nothing can be evaluated\n" + q.stderr.decode(errors="replace")[-2000:], file=sys.stderr)
                sys.exit(2)
            raise HarnessBuildError(name, err)
        return out

    def build_probe(self, name, static=True):
        os.makedirs(os.path.join(BUILD, "bin"), exist_ok=True)
        src = os.path.join(HARNESS, "probes", name + ".c")
        out = os.path.join(BUILD, "bin", "probe_" + name)
        if os.path.exists(out) and os.path.getmtime(out) >= os.path.getmtime(src):
            return out
        with Lock("cc"):
            cmd = ["gcc", "-O1", "-o", out, src] + (["-static"] if static else []) + ["-lpthread"]
            run(cmd, check=True, timeout=300)
        return out

    def run_harness(self, exe, cases, timeout=600, args=(), env=None):
        """cases: list of dicts -> list of dicts (JSON lines both ways)."""
        data = "".join(json.dumps(c) + "\n" for c in cases).encode()
        p = run([exe] + list(args), input=data, timeout=timeout, env=env)
        if p.returncode != 0:
            raise RuntimeError("harness %s failed (%d): %s" % (exe, p.returncode, p.stderr.decode(errors="replace")[-3000:]))
        res = []
        for line in p.stdout.decode(errors="replace").splitlines():
            line = line.strip()
            if line.startswith("{"):
                res.append(json.loads(line))
        return res

    def tmpdir(self, name="tmp"):
        d = os.path.join(self.work, "%s.%d.%d" % (name, os.getpid(), len(self.tmpdirs)))
        os.makedirs(d, exist_ok=True)
        self.tmpdirs.append(d)
        return d

    # ---- outcomes
    def violation(self, replay, no_input=False):
        d = os.path.join(ROOT, "replays", self.id)
        os.makedirs(d, exist_ok=True)
        n = len(self.violations)
        path = os.path.join(d, "%s-%d-%d.json" % (self.tier, self.seed, n))
        replay = dict(replay)
        replay["property"] = self.id
        replay["seed"] = self.seed
        replay["tier"] = self.tier
        replay["failing_input_found"] = not no_input
        with open(path, "w") as f:
            json.dump(replay, f, indent=1, default=str)
        self.violations.append(path)
        line = "VIOLATION property=%s replay=%s" % (self.id, path)
        if no_input:
            line += " no-failing-input-found"
        print(line, flush=True)

    def finding_or_violation(self, canon, replay=None, klass=None, per_class=3):
        """canon: canonical description of a failing case (flat dict).  If a
        listed known finding matches, it is printed once as KNOWN-FINDING,
        otherwise it is a violation (at most per_class replays per class of
        failure are written; the rest are counted in the evidence)."""
        for f in self.known["findings"]:
            if f["property"] != self.id:
                continue
            if _match(f["match"], canon):
                self.known_stale.discard(f["id"])
                if f["id"] not in self.known_printed:
                    self.known_printed.append(f["id"])
                    print("KNOWN-FINDING: property=%s %s" % (self.id, f["what"]), flush=True)
                return True
        klass = klass or str(canon.get("kind"))
        n = self.vclasses.get(klass, 0)
        self.vclasses[klass] = n + 1
        if n >= per_class:
            return False
        r = dict(replay or {})
        r["canonical_case"] = canon
        self.violation(r)
        return False

    def finish(self, level="proof", rule="", extra=None):
        for d in self.tmpdirs:
            shutil.rmtree(d, ignore_errors=True)
        shutil.rmtree(self.work, ignore_errors=True)
        cov = {
            "obligations": self.obligations,
            "discharged": self.discharged,
            "checker_cmd": " ; ".join(self.checker_cmds) or "none",
            "trusted_base": self.trusted,
            "theorems": self.theorems,
            "evaluations": self.evaluations,
            "distinct_nontrivial": len(self.nontrivial),
            "rule": rule,
            "samples": self.samples or ["(none: the run stopped before any case was evaluated)"],
            "input_distribution": self.dist,
            "known_findings_reproduced": self.known_printed,
            "known_findings_stale": sorted(self.known_stale),
            "violation_classes": self.vclasses,
        }
        cov.update(self.cov)
        if extra:
            cov.update(extra)
        ev = {
            "property_id": self.id, "tier": self.tier, "seed": self.seed, "level": level,
            "coverage": cov, "assumptions": self.assumptions,
            "wall_s": round(time.time() - self.t0, 2), "violations": len(self.violations),
        }
        os.makedirs(os.path.join(ROOT, "evidence"), exist_ok=True)
        with open(os.path.join(ROOT, "evidence", self.id + ".json"), "w") as f:
            json.dump(ev, f, indent=1, default=str)
        self.log("done: %d evaluations, %d distinct non-trivial, %d violations, %d known findings"
                 % (self.evaluations, len(self.nontrivial), len(self.violations), len(self.known_printed)))
        return 1 if self.violations else 0


class HarnessBuildError(Exception):
    def __init__(self, name, err):
        super().__init__("harness %s does not build with -tags verif:\n%s" % (name, err[-3000:]))
        self.name = name
        self.err = err


def _match(pred, canon):
    for k, v in pred.items():
        if k not in canon:
            return False
        c = canon[k]
        if isinstance(v, list):
            if c not in v:
                return False
        elif c != v:
            return False
    return True

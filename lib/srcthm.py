"""Source tie by translation: the child side of a launch (pkg/forkexec/fork_child_linux.go) is translated to the
Gallina IR of coq/theories/Launch/ChildIR.v by tools/goxlate on every run, and the theorems of
coq/srcthm/ChildSrcThm.v are re-proved against the translation (sixteen shards in parallel).

The result is shared by the checks of C04, C05, C07 and C16 (one computation per state of the translated sources,
tier and theorem files; cached under build/srcthm/)."""
import hashlib
import json
import os
import re
import shutil
import subprocess
import time

from vlib import ROOT, BUILD, COQ, REPO, GOENV, Lock, run

SRCTHM = os.path.join(COQ, "srcthm")
FUNCS = ["prepareFds", "forkAndExecInChild"]
PKG = os.path.join(REPO, "pkg", "forkexec")
CHECKS = {   # lemma name in the shards -> (check expression, domain)
    "sh_calls": ("check_calls_all", "DB_calls"),
    "sh_c07_fates": ("check_fates", "DB_fates"),
    "sh_c07_refusal": ("check_refusal", "DB_calls"),
    "sh_c07_gate": ("check_gate", "DB_calls"),
}
THEOREMS = {
    "C04": [("C04_source_issues_specified_calls", "sh_calls:k04")],
    "C05": [("C05_source_issues_specified_calls", "sh_calls:k05"), ("SRC_loops_as_specified", "loops_ok")],
    "C06": [("C06_source_shuffle_is_model", "fd_ok")],
    "C08": [("SRC_loops_as_specified", "loops_ok")],
    "C16": [("C16_source_issues_specified_calls", "sh_calls:k16")],
    "C07": [("C07_source_issues_specified_calls", "sh_calls:k07"), ("C07_source_failed_step_never_runs", "sh_c07_fates"),
            ("C07_source_refusal_never_runs", "sh_c07_refusal"), ("C07_source_gate_before_exec", "sh_c07_gate"),
            ("SRC_loops_as_specified", "loops_ok")],
}
TIERS = {
    # quick: the twelve interacting options exhaustively x the nine others all off / all on (failing steps: all on)
    "quick": ("ends_B", "[repeat true 9]", [0, 15, 7, 5]),
    # thorough: x all off, all on, exactly one on, exactly one off (failing steps: all off / all on)
    "thorough": ("cover_B", "ends_B", list(range(16))),
}
DOMAIN_TEXT = {
    "quick": "all 4096 combinations of the twelve interacting options x the nine others all off and all on (8192 configurations); failing steps: Credential / GIDMappings / GIDMappingsEnableSetgroups / empty Groups in {all set, none set, Credential only, Credential + setgroups allowed} x the eight other interacting options exhaustively x the nine others all on (1024 configurations, every call of each failed in turn)",
    "thorough": "all 4096 combinations of the twelve interacting options x the nine others all off, all on, exactly one on, exactly one off (81920 configurations); failing steps: x all off and all on (8192 configurations, every call of each failed in turn)",
}


def _config(m):
    names_a = ["Credential", "GIDMappings", "GIDMappingsEnableSetgroups", "Groups=[]", "NoSetGroups", "DropCaps", "NoNewPrivs",
               "Seccomp", "Ptrace", "StopBeforeSeccomp", "SyncFunc", "UnshareCgroupAfterSync"]
    names_b = ["CLONE_NEWUSER", "CLONE_NEWPID", "CLONE_NEWNS", "CTTY", "PivotRoot", "HostName", "DomainName", "WorkDir", "ExecFile"]
    a = [x.strip() == "true" for x in m.group(1).split(";")]
    b = [x.strip() == "true" for x in m.group(2).split(";")]
    return {n: v for n, v in zip(names_a + names_b, a + b)}


def _bits(k):
    return "[" + "; ".join("true" if (k >> (3 - i)) & 1 == 0 else "false" for i in range(4)) + "]"


def _coqc(d, f, timeout=1500):
    cmd = "ulimit -s unlimited; exec timeout %d coqc -Q %s GS -Q . Gen %s" % (timeout, os.path.join(COQ, "theories"), f)
    t0 = time.time()
    p = subprocess.run(["bash", "-c", cmd], cwd=d, stdout=subprocess.PIPE, stderr=subprocess.PIPE)
    return p.returncode, p.stdout.decode(errors="replace"), p.stderr.decode(errors="replace"), time.time() - t0


def _key(tier):
    h = hashlib.sha256()
    h.update(tier.encode())
    files = []
    for root in (PKG, SRCTHM, os.path.join(ROOT, "tools", "goxlate")):
        for fn in sorted(os.listdir(root)):
            if fn.endswith((".go", ".v")) and not fn.endswith("_test.go"):
                files.append(os.path.join(root, fn))
    files += [os.path.join(COQ, "theories", "Launch", x) for x in ("ChildIR.v", "ChildSeq.v")]
    files.append(os.path.abspath(__file__))
    for f in files:
        h.update(os.path.relpath(f, REPO if f.startswith(REPO + os.sep) else ROOT).encode())   # content, not location: a copy of /verif shares the result
        h.update(open(f, "rb").read())
    return h.hexdigest()[:20]


def compute(tier, log=lambda *a: None):
    """Translate, prove, diagnose.  Returns a dict (also cached)."""
    key = _key(tier)
    cdir = os.path.join(BUILD, "srcthm")
    os.makedirs(cdir, exist_ok=True)
    cfile = os.path.join(cdir, key + ".json")
    with Lock("srcthm"):
        if os.path.exists(cfile):
            return json.load(open(cfile))
        # remove old cache entries and work directories
        for fn in os.listdir(cdir):
            p = os.path.join(cdir, fn)
            if os.path.isdir(p):
                shutil.rmtree(p, ignore_errors=True)
            elif time.time() - os.path.getmtime(p) > 6 * 3600:
                os.unlink(p)
        d = os.path.join(cdir, "work." + key)
        os.makedirs(d)
        res = {"tier": tier, "key": key, "domain": DOMAIN_TEXT[tier], "stage": "ok", "ok": True, "failed_lemmas": [], "closed": {},
               "cmds": [], "diag": {}, "t0": time.time()}
        try:
            _compute(tier, d, res, log)
        finally:
            res["wall_s"] = round(time.time() - res.pop("t0"), 1)
            if not os.environ.get("VERIF_SRCTHM_KEEP"):
                shutil.rmtree(d, ignore_errors=True)
        with open(cfile, "w") as f:
            json.dump(res, f, indent=1)
        return res


def _compute(tier, d, res, log):
    # 1. translator (built from its source on every run)
    gx = os.path.join(BUILD, "bin", "goxlate")
    p = run(["go1.26", "build", "-o", gx, "."], cwd=os.path.join(ROOT, "tools", "goxlate"), env=GOENV, timeout=600)
    if p.returncode != 0:
        raise RuntimeError("goxlate does not build: " + p.stderr.decode(errors="replace")[-2000:])
    p = run([gx, PKG] + FUNCS, cwd=REPO, env=GOENV, timeout=300)
    res["cmds"].append("goxlate /repo/pkg/forkexec %s > ChildSrcGen.v" % " ".join(FUNCS))
    if p.returncode != 0:
        res.update(ok=False, stage="translate", detail=p.stderr.decode(errors="replace")[-3000:])
        return
    open(os.path.join(d, "ChildSrcGen.v"), "wb").write(p.stdout)
    res["generated_lines"] = p.stdout.count(b"\n")
    res["generated_sha"] = hashlib.sha256(p.stdout).hexdigest()[:16]
    dbc, dbf, pre_f = TIERS[tier]
    shutil.copy(os.path.join(SRCTHM, "ChildSrcBase.v"), d)
    thm = open(os.path.join(SRCTHM, "ChildSrcThm.v")).read()
    for lem in CHECKS:
        ks = pre_f if lem == "sh_c07_fates" else list(range(16))
        thm = thm.replace("@SHARDS:%s@" % lem, " ".join("destruct H as [<-|H]; [exact Sh%d.%s |]." % (k, lem) for k in ks))
    open(os.path.join(d, "ChildSrcThm.v"), "w").write(thm)
    open(os.path.join(d, "Tier.v"), "w").write(
        "From Coq Require Import List Bool.\nImport ListNotations.\nFrom GS Require Import Launch.ChildSeq.\nFrom Gen Require Import ChildSrcGen ChildSrcBase.\n"
        "Definition DB_calls : list (list bool) := %s.\nDefinition DB_fates : list (list bool) := %s.\n"
        "Definition PRE_fates : list (list bool) := %s.\n" % (dbc, dbf, "all_bits 4" if len(pre_f) == 16 else "[" + "; ".join(_bits(k) for k in pre_f) + "]"))
    for fn in ("ChildSrcGen.v", "ChildSrcBase.v", "Tier.v"):
        rc, out, err, dt = _coqc(d, fn)
        res["cmds"].append("coqc -Q theories GS -Q . Gen " + fn)
        if rc != 0:
            res.update(ok=False, stage="definitions", detail="%s: %s" % (fn, err[-3000:]))
            return
    # 2. the shards, in parallel; every lemma in its own file so that one failure does not hide another
    hdr = ("From Coq Require Import List Bool.\nImport ListNotations.\nFrom GS Require Import Launch.ChildIR Launch.ChildSeq.\n"
           "From Gen Require Import ChildSrcGen ChildSrcBase Tier.\n")
    jobs = []
    for k in range(16):
        for lem, (chk, dom) in CHECKS.items():
            if lem == "sh_c07_fates" and k not in pre_f:
                continue
            fn = "P%d_%s.v" % (k, lem)
            open(os.path.join(d, fn), "w").write(
                hdr + "Lemma %s : shard_ok %s %s %s = true.\nProof. vm_compute. reflexivity. Qed.\n" % (lem, chk, dom, _bits(k)))
            jobs.append((k, lem, fn))
    open(os.path.join(d, "PL_loops.v"), "w").write(
        hdr + "Lemma loops_ok : check_loops_list flags_plain loop_cases && check_loops_list flags_rooted loop_cases = true.\nProof. vm_compute. reflexivity. Qed.\n")
    jobs.append((-1, "loops_ok", "PL_loops.v"))
    open(os.path.join(d, "PF_fd.v"), "w").write(hdr + "Lemma fd_ok : check_fd_list fd_cases = true.\nProof. vm_compute. reflexivity. Qed.\n")
    jobs.append((-1, "fd_ok", "PF_fd.v"))
    for lem, (chk, dom) in CHECKS.items():
        if lem != "sh_c07_fates":
            fn = "PX_%s.v" % lem
            open(os.path.join(d, fn), "w").write(hdr + "Lemma %s : cross_ok %s = true.\nProof. vm_compute. reflexivity. Qed.\n" % (lem, chk))
            jobs.append((-2, lem, fn))
    from concurrent.futures import ThreadPoolExecutor
    failed = {}
    def one(j):
        k, lem, fn = j
        rc, out, err, dt = _coqc(d, fn, timeout=2400)
        return k, lem, rc, err, dt
    # the heavy lemmas first
    jobs.sort(key=lambda j: 0 if j[1] == "sh_c07_fates" else 1)
    with ThreadPoolExecutor(max_workers=16) as ex:
        for k, lem, rc, err, dt in ex.map(one, jobs):
            if rc != 0:
                failed.setdefault(lem, []).append((k, err[-400:]))
    res["cmds"].append("coqc P<k>_<lemma>.v  (16 shards x %d lemmas, vm_compute)" % len(CHECKS))
    res["failed_lemmas"] = sorted(failed)      # the per-part keys of sh_calls are appended by the diagnosis below
    if failed:
        res.update(ok=False, stage="theorems")
        # 3. diagnosis: the first configuration of the domain on which each failing check is false, with what the source does there
        for lem in sorted(failed):
            if lem == "fd_ok":
                body = (hdr + "From Coq Require Import ZArith.\nOpen Scope Z_scope.\nDefinition bad := Eval vm_compute in "
                        "match find (fun c => negb (check_fd c)) fd_cases with Some c => Some (c, fd_calls (ocalls (snd (run_src ok_orc (env_fd c))))) | None => None end.\nPrint bad.\n")
                open(os.path.join(d, "D_fd.v"), "w").write(body)
                rc, out, err, dt = _coqc(d, "D_fd.v", timeout=2400)
                res["diag"][lem] = {"coq": (out if rc == 0 else err)[-4000:]}
                m = re.search(r"fc_files := \[(.*?)\];\s*fc_pipe := (\S+?);\s*fc_exec := (\S+?);\s*fc_closed := \[(.*?)\]", out, re.S)
                if m:
                    res["diag"][lem]["case"] = {"files": [int(x.strip().strip("()")) for x in m.group(1).split(";") if x.strip()],
                                                "pipe": int(m.group(2).strip("()")), "exec": int(m.group(3).strip("()")),
                                                "closed": [int(x.strip().strip("()")) for x in m.group(4).split(";") if x.strip()]}
                continue
            if lem == "sh_calls":
                cross_only = all(k == -2 for k, _ in failed[lem])
                for part in ("k04", "k05", "k16", "k07"):
                    finder = ("first_bad_cross (check_calls_on %s)" % part) if cross_only else ("first_bad (check_calls_on %s) DB_calls" % part)
                    body = (hdr + "From Coq Require Import String ZArith.\nOpen Scope string_scope.\nOpen Scope Z_scope.\n"
                            "Definition bad := Eval vm_compute in %s.\nPrint bad.\n"
                            "Definition shown := Eval vm_compute in show_bad %s bad.\nPrint shown.\n" % (finder, part))
                    fn = "D_calls_%s.v" % part
                    open(os.path.join(d, fn), "w").write(body)
                    rc, out, err, dt = _coqc(d, fn, timeout=2400)
                    if rc != 0 or re.search(r"bad\s*=\s*Some", out):
                        key = "sh_calls:" + part
                        res["failed_lemmas"].append(key)
                        res["diag"][key] = {"shards_failing": [k for k, _ in failed[lem]], "coq": (out if rc == 0 else err)[-6000:]}
                        m = re.search(r"bad\s*=\s*Some\s*\(\s*\[(.*?)\]\s*,\s*\[(.*?)\]\s*\)", out, re.S)
                        if m:
                            res["diag"][key]["configuration"] = _config(m)
                continue
            if lem == "loops_ok":
                body = (hdr + "From Coq Require Import ZArith.\nOpen Scope Z_scope.\nDefinition bad := Eval vm_compute in (find (fun c => negb (check_loops flags_plain (fst c) (snd c))) loop_cases, "
                        "find (fun c => negb (check_loops flags_rooted (fst c) (snd c))) loop_cases).\nPrint bad.\n")
                open(os.path.join(d, "D_loops.v"), "w").write(body)
                rc, out, err, dt = _coqc(d, "D_loops.v", timeout=2400)
                res["diag"][lem] = {"coq": (out if rc == 0 else err)[-4000:]}
                continue
            chk, dom = CHECKS[lem]
            keep = {"sh_c04": "k04", "sh_c05": "k05", "sh_c16": "k16", "sh_c07_calls": "k07"}.get(lem, "(fun _ => true)")
            finder = "first_bad %s %s" % (chk, dom)
            if all(k == -2 for k, _ in failed[lem]):
                finder = "first_bad_cross %s" % chk      # only the cross domain fails
            body = (hdr + "From Coq Require Import String ZArith.\nOpen Scope string_scope.\nOpen Scope Z_scope.\n"
                    "Definition bad := Eval vm_compute in %s.\nPrint bad.\n"
                    "Definition shown := Eval vm_compute in show_bad %s bad.\nPrint shown.\n" % (finder, keep))
            fn = "D_%s.v" % lem
            open(os.path.join(d, fn), "w").write(body)
            rc, out, err, dt = _coqc(d, fn, timeout=2400)
            res["diag"][lem] = {"shards_failing": [k for k, _ in failed[lem]], "coq": (out if rc == 0 else err)[-6000:]}
            m = re.search(r"bad\s*=\s*Some\s*\(\s*\[(.*?)\]\s*,\s*\[(.*?)\]\s*\)", out, re.S)
            if m:
                res["diag"][lem]["configuration"] = _config(m)
        return
    # 4. the theorems: shards renamed into the modules the theorem file imports
    for k in range(16):
        mine = {lem: v for lem, v in CHECKS.items() if not (lem == "sh_c07_fates" and k not in pre_f)}
        txt = hdr + "From Gen Require " + " ".join("P%d_%s" % (k, lem) for lem in mine) + ".\n"
        txt += "Definition pre : list bool := %s.\n" % _bits(k)
        for lem, (chk, dom) in mine.items():
            txt += "Lemma %s : shard_ok %s %s pre = true.\nProof. exact P%d_%s.%s. Qed.\n" % (lem, chk, dom, k, lem, lem)
        open(os.path.join(d, "Sh%d.v" % k), "w").write(txt)
    with ThreadPoolExecutor(max_workers=16) as ex:
        rs = list(ex.map(lambda k: _coqc(d, "Sh%d.v" % k), range(16)))
    bad = [r for r in rs if r[0] != 0]
    if bad:
        res.update(ok=False, stage="combine", detail=bad[0][2][-2000:])
        return
    rc, out, err, dt = _coqc(d, "ChildSrcThm.v", timeout=600)
    res["cmds"].append("coqc -Q theories GS -Q . Gen ChildSrcThm.v   (Print Assumptions under every theorem)")
    if rc != 0:
        res.update(ok=False, stage="combine", detail=err[-3000:])
        return
    for m in re.finditer(r"^(Closed under the global context|Axioms:)", out, re.M):
        pass
    names = re.findall(r"^Theorem\s+(\w+)", open(os.path.join(d, "ChildSrcThm.v")).read(), re.M)
    verdicts = re.findall(r"^(Closed under the global context|Axioms:.*)$", out, re.M)
    res["closed"] = {n: (v.startswith("Closed")) for n, v in zip(names, verdicts)}
    if len(verdicts) != len(names) or not all(res["closed"].values()):
        res.update(ok=False, stage="axioms", detail=out[-2000:])


def apply_to_check(c, prop):
    """Run (or fetch) the source tie and book it into check `c` for property `prop`.  Returns the list of failing
    theorem names of this property (empty: the tie holds); the caller reports them as a violation with or without a
    failing input once its own runs are over (see report)."""
    res = compute(c.tier, c.log)
    mine = THEOREMS[prop]
    c.cov["source_translation"] = {
        "translator": "tools/goxlate (go/ast + go/types) -> Gallina IR (Launch/ChildIR.v); functions " + ", ".join(FUNCS),
        "generated_lines": res.get("generated_lines"), "generated_sha": res.get("generated_sha"),
        "domain": res["domain"], "theorems": [t for t, _ in mine], "stage": res["stage"], "wall_s": res.get("wall_s"),
    }
    c.checker_cmds += [x for x in res["cmds"] if x not in c.checker_cmds]
    c.trusted.append("tools/goxlate: syntax-directed translator from the raw-syscall subset of Go to the IR (constants by go/types); "
                     "the IR interpreter's reading of Go statements; the kernel is an oracle (any call may fail, exec may succeed)")
    c.obligations += len(mine)
    c.theorems += [t for t, _ in mine]
    if res["ok"]:
        c.discharged += len(mine)
        return []
    if res["stage"] in ("translate", "definitions", "combine", "axioms"):
        return [{"theorem": t, "stage": res["stage"], "detail": res.get("detail", "")[-1500:]} for t, _ in mine]
    out = []
    fl = set(res["failed_lemmas"])
    if "sh_calls" in fl and not any(x.startswith("sh_calls:") for x in fl):
        fl |= {"sh_calls:k04", "sh_calls:k05", "sh_calls:k16", "sh_calls:k07"}     # the diagnosis could not tell the parts apart
    for t, lem in mine:
        if lem in fl:
            out.append({"theorem": t, "stage": "theorems", "diag": res["diag"].get(lem, {})})
        else:
            c.discharged += 1
    return out


def report(c, broken, found_before):
    """After the dynamic runs: a broken source theorem with no failing input found by them is still a violation."""
    if not broken:
        return
    if len(c.violations) > found_before:
        # the runs exhibited a failing input: attach the broken theorems to the evidence only
        c.cov["source_translation"]["broken"] = [b["theorem"] for b in broken]
        return
    c.violation({"kind": "source-theorem-does-not-check",
                 "what": "the theorems about the translated source of pkg/forkexec (fork_child_linux.go) no longer check",
                 "theorems": broken,
                 "file": "coq/srcthm/ChildSrcThm.v against the translation of /repo/pkg/forkexec"}, no_input=True)
